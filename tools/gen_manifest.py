#!/usr/bin/env python3
"""Regenerates /verif/MANIFEST.json from tools/manifest_table.json (one row per property)."""
import json, os, subprocess
V = os.path.dirname(os.path.dirname(os.path.abspath(__file__)))
table = json.load(open(os.path.join(V, "tools", "manifest_table.json")))
props = [json.loads(l) for l in open(os.path.join(V, "properties.jsonl"))]
ids = [p["id"] for p in props]
hooks_commits = subprocess.run(["git", "-C", "/repo", "log", "--format=%H %s"], capture_output=True, text=True).stdout.splitlines()
hook_shas = [l.split()[0] for l in hooks_commits if "verif hooks" in l]
checks, na = [], []
for pid in ids:
    row = table.get(pid, {})
    if row.get("claimed"):
        checks.append({
            "property_id": pid,
            "quick_cmd": f"bin/check {pid} quick",
            "thorough_cmd": f"bin/check {pid} thorough",
            "evidence_file": f"/verif/evidence/{pid}.json",
            "replay_cmd_template": "bin/check --replay {path}",
            "engine": "twv",
            "level_claimed": {"category": "proof", "text": row["level_text"], "design_ref": row.get("design_ref", "DESIGN.md §4 " + pid)},
            "level_note": row["level_note"],
            "technique": row.get("technique", "contract-based deductive verification: weakest-precondition style VCs generated from go/ssa of the working tree against //@ contracts, discharged by z3/cvc5"),
        })
    else:
        na.append({"property_id": pid, "reason": row.get("reason", "not claimed yet: contracts for this property's functions are not written; the technique applies (see DESIGN.md §4)")})
m = {
    "version": 1,
    "setup_cmd": "cd /verif/engine && GOFLAGS=-mod=mod GOPROXY=off GOSUMDB=off GOTOOLCHAIN=local go build -o /verif/bin/twv .",
    "hooks": {
        "guard": "verif",
        "enable": "go build tag 'verif': contract files <pkg>/zz_contracts_verif.go are comment-only and are read by the engine as text; the engine loads /repo with -tags=verif",
        "baseline_off_cmd": "cd /repo && GOFLAGS=-mod=mod GOPROXY=off GOSUMDB=off go test -vet=off -count=1 ./...",
        "source_commits": hook_shas,
        "add_only": True,
    },
    "engines": [{"name": "twv", "path": "/verif/engine", "serves_properties": [c["property_id"] for c in checks],
                 "kind_free_text": "verification-condition generator over go/ssa (NaiveForm) of /repo's working tree, Gobra-style //@ contracts in /repo/<pkg>/zz_contracts_verif.go (build tag verif), obligations discharged by z3 5.1.0 / z3 4.8.12 / cvc5 1.0.3"}],
    "checks": checks,
    "not_applicable": na,
    "notes": "See DESIGN.md. Known findings: /verif/known_findings.json. Replays: /verif/replays/<id>/ (rewritten per run).",
}
json.dump(m, open(os.path.join(V, "MANIFEST.json"), "w"), indent=1)
print("checks:", len(checks), "not_applicable:", len(na))
