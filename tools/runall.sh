#!/bin/bash
# runs every claimed check (quick) and prints one line per property
cd /verif
for id in $(python3 -c "import json;print(' '.join(c['property_id'] for c in json.load(open('MANIFEST.json'))['checks']))"); do
  out=$(./bin/check $id ${1:-quick} 2>&1); rc=$?
  echo "$id rc=$rc $(echo "$out" | tail -1)"
  echo "$out" | grep "^VIOLATION\|MACHINERY" | head -5
done
