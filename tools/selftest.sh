#!/bin/bash
# NOTE: to stop a run, kill the python3 child BY PID (ps aux | grep "python3 -"), not only this shell;
# pkill -f with a pattern that also occurs in your own command line kills your shell instead.
# Must-fail corpus: applies every patch of selftest/mutants (and seeded/*/patch.diff) to /repo's
# working tree, runs the owning property's quick check, reverts, and records whether the
# check reported a VIOLATION. Usage: tools/selftest.sh [ids...]  -> writes selftest/results.json
cd /verif
if [ -n "$(git -C /repo status --porcelain)" ]; then echo 'selftest: /repo has uncommitted changes; commit them first (the corpus reverts the working tree)'; exit 2; fi
mkdir -p .work
python3 - "$@" <<'PY'
import json,subprocess,sys,os,glob
idx=json.load(open('/verif/selftest/mutants/index.json'))
ms=idx['mutants'] if isinstance(idx,dict) and 'mutants' in idx else idx
items=[]
for m in ms:
    if isinstance(m,dict) and 'id' in m:
        items.append((m['id'], m['property'], '/verif/selftest/mutants/%s.patch'%m['id'], m.get('expect','fail'), m.get('description', m.get('change',''))))
for d in sorted(glob.glob('/verif/seeded/*/meta.json'))+sorted(glob.glob('/verif/seeded2/*/meta.json'))+sorted(glob.glob('/verif/seeded3/*/meta.json'))+sorted(glob.glob('/verif/seeded4/*/meta.json'))+sorted(glob.glob('/verif/seeded5/*/meta.json'))+sorted(glob.glob('/verif/seeded6/*/meta.json'))+sorted(glob.glob('/verif/seeded7/*/meta.json'))+sorted(glob.glob('/verif/seeded8/*/meta.json')):
    meta=json.load(open(d)); sid=os.path.basename(os.path.dirname(d))
    if '/seeded2/' in d: sid='S2-'+sid
    if '/seeded3/' in d: sid='S3-'+sid
    if '/seeded4/' in d: sid='S4-'+sid
    if '/seeded5/' in d: sid='S5-'+sid
    if '/seeded6/' in d: sid='S6-'+sid
    if '/seeded7/' in d: sid='S7-'+sid
    if '/seeded8/' in d: sid='S8-'+sid
    items.append((sid, meta['property'], os.path.dirname(d)+'/patch.diff', 'fail', meta.get('breaks','')))
want=set(sys.argv[1:])
res=[]
if os.path.exists('/verif/selftest/results.json'):
    res=[r for r in json.load(open('/verif/selftest/results.json')) if want and r['id'] not in want]
for mid,prop,patch,expect,change in items:
    if want and mid not in want: continue
    ap=subprocess.run(['patch','-p1','-s','--no-backup-if-mismatch','-d','/repo','-i',patch],capture_output=True,text=True)
    if ap.returncode!=0:
        subprocess.run(['git','-C','/repo','checkout','--','.']); subprocess.run(['git','-C','/repo','clean','-fdq'])
        res.append({'id':mid,'property':prop,'status':'patch-does-not-apply (code changed by a fix)','change':change}); print(mid,'patch does not apply'); continue
    r=subprocess.run(['/verif/bin/check',prop,'quick'],capture_output=True,text=True,cwd='/verif',env=dict(os.environ,VERIF_NOEVIDENCE='1'))
    subprocess.run(['git','-C','/repo','checkout','--','.']); subprocess.run(['git','-C','/repo','clean','-fdq'])
    viol=[l for l in r.stdout.splitlines() if l.startswith('VIOLATION')]
    confirmed=[l for l in viol if not l.endswith('no-failing-input-found')]
    names=[os.path.basename(l.split('replay=')[1].split()[0]).replace('.json','') for l in viol][:4]
    status='detected' if viol else 'MISSED'
    if expect=='pass': status='quiet (control)' if not viol else 'FALSE-ALARM'
    res.append({'id':mid,'property':prop,'status':status,'violations':len(viol),'replayed':len(confirmed),'obligations':names,'exit':r.returncode,'change':change})
    print(mid,prop,status,len(viol),names[:2],flush=True)
json.dump(res,open('/verif/selftest/results.json','w'),indent=1)
PY
