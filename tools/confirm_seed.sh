#!/bin/bash
# confirm_seed.sh <id> <out-dir> <pkg-dir>: checks a seeded change in a fresh scratch worktree of
# /repo HEAD: demo passes on the unmodified tree, the patch applies, the suite passes, the demo fails.
set -u
id=$1; out=$2; pkg=${3:-.}
export GOFLAGS=-mod=mod GOPROXY=off GOSUMDB=off GOTOOLCHAIN=local
wt=/tmp/confirm/$id
rm -rf $wt; git -C /repo worktree prune; git -C /repo worktree add -q --detach $wt HEAD || exit 2
trap 'git -C /repo worktree remove --force $wt 2>/dev/null; rm -rf $wt' EXIT
find $wt -name zz_contracts_verif.go -delete
cp $out/zz_demo_test.go $wt/$pkg/zz_demo_test.go
cd $wt
if ! go test -vet=off -count=1 -run '^TestSeedDemo$' ./$pkg > /tmp/confirm/$id.pre.log 2>&1; then echo "$id: demo FAILS on unmodified tree"; tail -5 /tmp/confirm/$id.pre.log; exit 1; fi
if ! git apply --exclude='*zz_contracts_verif.go' --exclude='*zz_demo_test.go' $out/patch.diff 2>/tmp/confirm/$id.apply.log; then echo "$id: patch does not apply"; cat /tmp/confirm/$id.apply.log | head -5; exit 1; fi
if ! go build ./... > /tmp/confirm/$id.build.log 2>&1; then echo "$id: does not build"; exit 1; fi
if go test -vet=off -count=1 -skip '^TestSeedDemo$' ./... 2>&1 | grep -v "no test files" | grep -qv "^ok"; then echo "$id: suite FAILS with the change"; exit 1; fi
if go test -vet=off -count=1 -run '^TestSeedDemo$' ./$pkg > /tmp/confirm/$id.post.log 2>&1; then echo "$id: demo still PASSES with the change (no break shown)"; exit 1; fi
echo "$id: confirmed (demo passes before, suite passes after, demo fails after)"
