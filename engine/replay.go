package main

// Replay of refuted obligations on the real code. A refutation's model is recorded in the
// replay file; where a replay driver exists for the function's package it is run through
// `go test -overlay` on /repo's working tree (the driver evaluates the same contract
// clauses as runtime assertions on the model's values and on nearby enumerated inputs).

import (
	"encoding/json"
	"os"
	"path/filepath"
	"regexp"
	"strings"
)

type Driver struct {
	Pattern string `json:"pattern"` // regexp on obligation names
	Pkg     string `json:"pkg"`
	File    string `json:"file"`
	Run     string `json:"run"`
	Timeout int    `json:"timeout_s"`
}

func replayObligation(repo, verif, replayDir, id string, r *ObResult) (bool, string) {
	var drivers []Driver
	if b, err := os.ReadFile(filepath.Join(verif, "replay", "drivers.json")); err == nil {
		json.Unmarshal(b, &drivers)
	}
	note := "no replay driver for this obligation"
	extra := map[string]any{}
	confirmed := false
	for _, d := range drivers {
		if !regexp.MustCompile(d.Pattern).MatchString(r.Name) {
			continue
		}
		src, err := os.ReadFile(filepath.Join(verif, "replay", d.File))
		if err != nil {
			continue
		}
		mj, _ := json.Marshal(r.Model)
		os.Setenv("TWV_OBLIGATION", r.Name)
		os.Setenv("TWV_MODEL", string(mj))
		to := d.Timeout
		if to == 0 {
			to = 120
		}
		failed, out := runGoTest(repo, verif, d.Pkg, string(src), d.Run, to, false)
		extra["driver"] = d.File
		extra["driver_output"] = truncate(out, 6000)
		extra["replay_cmd"] = "cd /repo && TWV_OBLIGATION='" + r.Name + "' go test -overlay <ov mapping " + d.Pkg + "/zz_twv_replay_test.go to /verif/replay/" + d.File + "> -vet=off -run " + d.Run + " ./" + d.Pkg
		if failed && strings.Contains(out, "TWV-CONFIRMED") {
			confirmed = true
			note = "confirmed on the real code by replay driver " + d.File
			for _, l := range strings.Split(out, "\n") {
				if strings.Contains(l, "TWV-CONFIRMED") {
					extra["failing_input"] = strings.TrimSpace(l)
					break
				}
			}
		} else if strings.Contains(out, "[build failed]") {
			note = "replay driver does not build against the current tree"
		} else {
			note = "replay driver found no failing input"
		}
		break
	}
	p := writeReplay(replayDir, id, r, note, extra)
	return confirmed, p
}

// cmdReplay re-runs the replay recorded in a replay file against the current tree.
func cmdReplay(args []string) {
	if len(args) < 1 {
		os.Exit(2)
	}
	b, err := os.ReadFile(args[0])
	if err != nil {
		println(err.Error())
		os.Exit(2)
	}
	var m map[string]any
	if json.Unmarshal(b, &m) != nil {
		os.Stdout.Write(b)
		os.Exit(1)
	}
	name, _ := m["obligation"].(string)
	id, _ := m["property"].(string)
	r := &ObResult{Name: name, Status: "refuted"}
	if mm, ok := m["model"].(map[string]any); ok {
		r.Model = map[string]string{}
		for k, v := range mm {
			r.Model[k], _ = v.(string)
		}
	}
	dir, _ := os.MkdirTemp("/verif/.work", "rr")
	defer os.RemoveAll(dir)
	ok, p := replayObligation("/repo", "/verif", dir, id, r)
	out, _ := os.ReadFile(p)
	os.Stdout.Write(out)
	if ok {
		println("\nreplay: violation reproduced")
		os.Exit(1)
	}
	println("\nreplay: not reproduced")
	os.Exit(0)
}
