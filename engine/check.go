package main

// Property-level driver: twv check -prop C19 -tier quick
// Reads /verif/props/<ID>.json and /verif/known_findings.json, generates and discharges
// the property's obligations on the current working tree of /repo, replays refutations,
// writes /verif/evidence/<ID>.json and prints VIOLATION / KNOWN-FINDING lines.

import (
	"encoding/json"
	"flag"
	"fmt"
	"os"
	"os/exec"
	"path/filepath"
	"regexp"
	"sort"
	"strconv"
	"strings"
	"time"
)

// PropExtra: functions outside the property's own cone of which only the named obligations
// belong to this property (the rest is decided by the properties that own those functions)
type PropExtra struct {
	Functions []string `json:"functions"`
	Only      string   `json:"only"`
}

type PropExclude struct {
	Pattern string `json:"pattern"`
	Reason  string `json:"reason"`
}

type PropSpec struct {
	ID          string        `json:"id"`
	Functions   []string      `json:"functions"`
	Kinds       []string      `json:"kinds,omitempty"`
	Only        string        `json:"only,omitempty"` // regexp: obligations that carry this property (others of the cone are still required as support)
	Exclude     []PropExclude `json:"attempted_not_claimed,omitempty"`
	Goals       []string      `json:"goals,omitempty"` // human-readable: which clauses are the property's own
	PaperLemmas []string      `json:"paper_lemmas,omitempty"`
	NotCovered  []string      `json:"not_covered,omitempty"`
	Bounded     []BoundedSpec `json:"bounded,omitempty"`
	TimeoutQ    int           `json:"timeout_quick,omitempty"`
	TimeoutT    int           `json:"timeout_thorough,omitempty"`
	MinObl      int           `json:"min_obligations,omitempty"`
	Mutants     []string      `json:"mutants,omitempty"`
	Computed    []string      `json:"computed_premises,omitempty"`
	Scan        *scanOpts     `json:"scan_nondeterminism,omitempty"`
	ScanAst     *astScanOpts  `json:"scan_ast_writes,omitempty"`
	ScanRec     bool          `json:"scan_recursion,omitempty"`
	Extra       []PropExtra   `json:"extra_functions,omitempty"`
	Ignore      []string      `json:"goals_of_other_properties,omitempty"` // regexps: goal obligations that belong to another property's check
}

type BoundedSpec struct {
	Name  string `json:"name"`
	Pkg   string `json:"pkg"`  // directory under /repo ("." for root)
	File  string `json:"file"` // test source under /verif/bounded
	Bound string `json:"bound"`
	Run   string `json:"run"`
}

type Witness struct {
	Pkg     string `json:"pkg"`  // directory under /repo
	Code    string `json:"code"` // body of func TestTwvWitness(t *testing.T)
	Imports []string `json:"imports,omitempty"`
	Observe string `json:"observe"`
	Timeout int    `json:"timeout_s,omitempty"`
}

type Finding struct {
	Property   string   `json:"property"`
	Obligation string   `json:"obligation"` // regexp on obligation names
	Status     string   `json:"status"`     // open | fixed
	Summary    string   `json:"summary"`
	Witness    *Witness `json:"witness,omitempty"`
	Fixed      string   `json:"fixed,omitempty"` // "fixed: property=<id> <commit> <what failed>"
	DefectID   string   `json:"defect,omitempty"`
}

type Findings struct {
	Findings []Finding `json:"findings"`
}

type EvObl struct {
	Name      string `json:"name"`
	Kind      string `json:"kind"`
	Status    string `json:"status"`
	Solver    string `json:"solver"`
	Ms        int64  `json:"ms"`
	Instances int    `json:"instances"`
}

func cmdCheck(args []string) {
	fs := flag.NewFlagSet("check", flag.ExitOnError)
	prop := fs.String("prop", "", "property id")
	tier := fs.String("tier", "quick", "quick|thorough")
	repo := fs.String("repo", "/repo", "repository")
	verif := fs.String("verif", "/verif", "verif dir")
	noEvidence := fs.Bool("no-evidence", false, "do not write the evidence file")
	fs.Parse(args)
	if t := os.Getenv("VERIF_TIER"); t == "quick" || t == "thorough" {
		*tier = t
	}
	seed := 0
	if s := os.Getenv("VERIF_SEED"); s != "" {
		seed, _ = strconv.Atoi(s)
	}
	if os.Getenv("VERIF_NOEVIDENCE") != "" {
		*noEvidence = true
	}
	os.Exit(runCheck(*prop, *tier, *repo, *verif, seed, !*noEvidence))
}

func machineryError(format string, a ...any) int {
	fmt.Printf("MACHINERY-ERROR: "+format+"\n", a...)
	return 3
}

func runCheck(id, tier, repo, verif string, seed int, writeEv bool) int {
	start := time.Now()
	var ps PropSpec
	b, err := os.ReadFile(filepath.Join(verif, "props", id+".json"))
	if err != nil {
		return machineryError("no property spec for %s: %v", id, err)
	}
	if err := json.Unmarshal(b, &ps); err != nil {
		return machineryError("bad property spec: %v", err)
	}
	var kf Findings
	if b, err := os.ReadFile(filepath.Join(verif, "known_findings.json")); err == nil {
		if err := json.Unmarshal(b, &kf); err != nil {
			return machineryError("bad known_findings.json: %v", err)
		}
	}
	timeout := 10
	if ps.TimeoutQ > 0 {
		timeout = ps.TimeoutQ
	}
	if tier == "thorough" {
		timeout = 60
		if ps.TimeoutT > 0 {
			timeout = ps.TimeoutT
		}
	}
	work := filepath.Join(verif, ".work", id)
	o := &runOpts{repo: repo, work: work, timeout: timeout, seed: seed, cross: tier == "thorough", jobs: 16, scan: ps.Scan, astScan: ps.ScanAst, recScan: ps.ScanRec}
	var mainFuncs []*regexp.Regexp
	for _, r := range ps.Functions {
		re := regexp.MustCompile("^(?:" + r + ")$")
		o.funcs = append(o.funcs, re)
		mainFuncs = append(mainFuncs, re)
	}
	type extraRe struct {
		fn   []*regexp.Regexp
		only *regexp.Regexp
	}
	var extras []extraRe
	for _, e := range ps.Extra {
		er := extraRe{only: regexp.MustCompile(e.Only)}
		for _, r := range e.Functions {
			re := regexp.MustCompile("^(?:" + r + ")$")
			o.funcs = append(o.funcs, re)
			er.fn = append(er.fn, re)
		}
		extras = append(extras, er)
	}
	// an obligation of an extra function counts only when it matches that entry's "only"
	extraSkip := func(fn, name string) bool {
		for _, m := range mainFuncs {
			if m.MatchString(fn) {
				return false
			}
		}
		for _, e := range extras {
			for _, re := range e.fn {
				if re.MatchString(fn) {
					return !e.only.MatchString(name)
				}
			}
		}
		return false
	}
	if len(ps.Kinds) > 0 {
		o.kinds = map[string]bool{"cover": true}
		for _, k := range ps.Kinds {
			o.kinds[k] = true
		}
	}
	res, err := runVerify(o)
	replayDir := filepath.Join(verif, "replays", id)
	os.RemoveAll(replayDir)
	os.MkdirAll(replayDir, 0o755)
	violations := 0
	if err != nil {
		// the tree does not load (does not compile with tag verif): nothing can be decided
		p := filepath.Join(replayDir, "load-error.txt")
		os.WriteFile(p, []byte("obligation: load\n"+err.Error()+"\n"), 0o644)
		fmt.Printf("VIOLATION property=%s replay=%s no-failing-input-found\n", id, p)
		return 1
	}
	var excl []*regexp.Regexp
	for _, e := range ps.Exclude {
		excl = append(excl, regexp.MustCompile(e.Pattern))
	}
	var only *regexp.Regexp
	if ps.Only != "" {
		only = regexp.MustCompile(ps.Only)
	}
	var evObls []EvObl
	var notClaimed []string
	var known []string
	obligations, discharged := 0, 0
	covers, coversOK := 0, 0
	ignored := 0
	var deadReturns []string
	var vacuous []*ObResult
	deadByFunc, retsByFunc := map[string]int{}, map[string]int{}
	carrying := 0
	samples := []any{}
	kinds := map[string]int{}
	bySolver := map[string]int{}
	type pending struct {
		r *ObResult
	}
	var failed []*ObResult
	// functions with any non-proved obligation, including ones this property does not claim:
	// the failed fact is assumed afterwards, so later covers there may be vacuous
	unprovedFuncs := map[string]bool{}
	for _, r := range res.Results {
		if r.Kind != "cover" && r.Status != "proved" {
			unprovedFuncs[r.Func] = true
		}
	}
	for _, r := range res.Results {
		if r.Kind == "cover" {
			covers++
			if r.Status == "cover-ok" {
				coversOK++
			} else if strings.Contains(r.Name, "/cover:ret#") {
				// a return that cannot be reached under the contracts (dead code); a function none
				// of whose returns is reachable is caught below
				deadReturns = append(deadReturns, r.Name)
				deadByFunc[r.Func]++
			} else {
				vacuous = append(vacuous, r)
			}
			if strings.Contains(r.Name, "/cover:ret#") {
				retsByFunc[r.Func]++
			}
			continue
		}
		skip := false
		if extraSkip(r.Func, r.Name) {
			ignored++
			continue
		}
		for _, ig := range ps.Ignore {
			if regexp.MustCompile(ig).MatchString(r.Name) {
				skip = true
				ignored++
				break
			}
		}
		if skip {
			continue
		}
		for i, e := range excl {
			if e.MatchString(r.Name) {
				notClaimed = append(notClaimed, fmt.Sprintf("%s [%s] (%s)", r.Name, r.Status, ps.Exclude[i].Reason))
				skip = true
				break
			}
		}
		if skip {
			continue
		}
		if r.Status == "proved" {
			obligations++
			discharged++
			kinds[r.Kind]++
			bySolver[r.Solver]++
			if only != nil && only.MatchString(r.Name) {
				carrying++
			}
			evObls = append(evObls, EvObl{r.Name, r.Kind, r.Status, r.Solver, r.Ms, r.Instances})
			if len(samples) < 6 && r.Instances > 0 && (r.Kind == "goal" || r.Kind == "post" || r.Kind == "inv-keep" || r.Kind == "dec" || r.Kind == "assert" || r.Kind == "frame") {
				samples = append(samples, map[string]any{"obligation": r.Name, "kind": r.Kind, "instances": r.Instances, "solver": r.Solver, "ms": r.Ms})
			}
			continue
		}
		failed = append(failed, r)
	}
	// a failed obligation is assumed after it is reported, so later covers of the same
	// function may be vacuous as a consequence: that is not a machinery error
	failedFuncs := map[string]bool{}
	for f := range unprovedFuncs {
		failedFuncs[f] = true
	}
	for _, r := range failed {
		failedFuncs[r.Func] = true
	}
	for _, e := range res.Errors {
		for f := range retsByFunc {
			if strings.Contains(e, f) {
				failedFuncs[f] = true
			}
		}
	}
	machinery := false
	for _, v := range vacuous {
		if !failedFuncs[v.Func] {
			fmt.Printf("MACHINERY-ERROR: vacuous cover %s (contradictory requires/invariant?)\n", v.Name)
			machinery = true
		}
	}
	for f, n := range deadByFunc {
		if n == retsByFunc[f] && !failedFuncs[f] {
			fmt.Printf("MACHINERY-ERROR: no return of %s is reachable under its contract (vacuous)\n", f)
			machinery = true
		}
	}
	if machinery {
		return 3
	}
	// engine errors on functions of this property: the contracts no longer apply
	for _, e := range res.Errors {
		p := filepath.Join(replayDir, fmt.Sprintf("engine-error-%x.txt", hash32(e)))
		os.WriteFile(p, []byte("obligation: contract-applies\nThe contract could not be evaluated against the current code:\n"+e+"\n"), 0o644)
		fmt.Printf("VIOLATION property=%s replay=%s no-failing-input-found\n", id, p)
		violations++
	}
	for _, r := range failed {
		// known finding?
		var match *Finding
		for i := range kf.Findings {
			f := &kf.Findings[i]
			if f.Property != id || f.Status != "open" {
				continue
			}
			if regexp.MustCompile("^(?:" + f.Obligation + ")$").MatchString(r.Name) {
				match = f
				break
			}
		}
		if match != nil {
			ok, out := true, ""
			if match.Witness != nil {
				ok, out = runWitness(repo, verif, match.Witness)
			}
			if ok {
				line := fmt.Sprintf("KNOWN-FINDING: property=%s %s -- %s", id, r.Name, match.Summary)
				fmt.Println(line)
				known = append(known, line)
				continue
			}
			// the obligation still fails but the recorded witness no longer reproduces
			p := writeReplay(replayDir, id, r, "known finding "+match.DefectID+" no longer reproduces with its recorded witness; witness output:\n"+out, nil)
			fmt.Printf("VIOLATION property=%s replay=%s no-failing-input-found\n", id, p)
			violations++
			continue
		}
		obligations++
		confirmed, rp := replayObligation(repo, verif, replayDir, id, r)
		if confirmed {
			fmt.Printf("VIOLATION property=%s replay=%s\n", id, rp)
		} else {
			fmt.Printf("VIOLATION property=%s replay=%s no-failing-input-found\n", id, rp)
		}
		violations++
	}
	if obligations == 0 {
		return machineryError("zero obligations generated for %s", id)
	}
	if ps.MinObl > 0 && obligations < ps.MinObl {
		p := filepath.Join(replayDir, "obligation-count.txt")
		os.WriteFile(p, []byte(fmt.Sprintf("obligation: obligation-count\nexpected at least %d obligations, generated %d: functions under contract disappeared\n", ps.MinObl, obligations)), 0o644)
		fmt.Printf("VIOLATION property=%s replay=%s no-failing-input-found\n", id, p)
		violations++
	}
	// computed premises and bounded stand-ins (thorough)
	var boundedOut []map[string]any
	if tier == "thorough" {
		for _, bs := range ps.Bounded {
			ok, out, secs := runBounded(repo, verif, bs)
			boundedOut = append(boundedOut, map[string]any{"name": bs.Name, "bound": bs.Bound, "passed": ok, "wall_s": secs, "label": "bounded (not counted as proved)"})
			if !ok {
				p := filepath.Join(replayDir, "bounded-"+bs.Name+".txt")
				os.WriteFile(p, []byte("obligation: bounded:"+bs.Name+"\n"+out), 0o644)
				fmt.Printf("VIOLATION property=%s replay=%s\n", id, p)
				violations++
			}
		}
	}
	// evidence
	var assumptions []string
	assumptions = append(assumptions,
		"A1: Go int/uint arithmetic on positions, lengths and indexes is treated as mathematical (no input longer than 2^62 bytes); int64 arithmetic in functions marked 'ints wrap64' is wrapped explicitly",
		"A2: the Go stack does not overflow (recursion depth is not modelled)",
		"heap well-formedness: every reference read from the heap or received as an argument is below the allocation watermark",
		"string equality between two non-literal strings is not extensional in the SMT encoding (a spurious model is reported as undecided, never as proof)",
		"floats are an uninterpreted sort: only which operation is applied to which operand is decided",
		"sizes: a slice of non-empty elements and a string are at most 2^48 long (the runtime's maxAlloc); allocations of at most the declared //@ allocbound succeed",
		"UTF-8 decoding in a range over a string: a byte below 0x80 is its own rune of width 1, any other byte starts a rune >= 0x80 of width 1..4 that ends inside the string",
		"site-keyed clauses (call f#k, return k, loop k) are matched by ordinal in source order; a clause whose site is gone is reported as contract-applies")
	for k, n := range res.Stdlib {
		assumptions = append(assumptions, fmt.Sprintf("stdlib contract assumed: %s [%d uses]", k, n))
	}
	for k, n := range res.Havoc {
		assumptions = append(assumptions, fmt.Sprintf("call with unknown effects havocs the heap: %s [%d]", k, n))
	}
	var inl []string
	for k := range res.Inlined {
		inl = append(inl, k)
	}
	sort.Strings(inl)
	if len(inl) > 0 {
		assumptions = append(assumptions, "helpers without a contract are inlined at their call sites (caller checked against the body): "+strings.Join(inl, ", "))
	}
	for _, l := range ps.PaperLemmas {
		assumptions = append(assumptions, "paper lemma (not machine-checked): "+l)
	}
	for _, l := range ps.NotCovered {
		assumptions = append(assumptions, "not covered: "+l)
	}
	for w, n := range res.Warnings {
		assumptions = append(assumptions, fmt.Sprintf("engine imprecision: %s [%d]", w, n))
	}
	sort.Strings(assumptions[5:])
	tables := map[string]int{}
	for k, v := range res.ConstTables {
		tables[k] = len(v)
	}
	ev := map[string]any{
		"property_id": id,
		"tier":        tier,
		"seed":        seed,
		"level":       "proof",
		"coverage": map[string]any{
			"obligations":              obligations,
			"discharged":               discharged,
			"checker_cmd":              fmt.Sprintf("bin/check %s %s  (twv: go/ssa VC generation on /repo working tree; z3-new 5.1.0 first, z3 4.8.12 and cvc5 1.0.3 raced on unknown; thorough: all three cross-checked)", id, tier),
			"trusted_base":             []string{"twv VC generator (/verif/engine)", "golang.org/x/tools/go/ssa v0.29.0 and go/types", "z3 5.1.0 / z3 4.8.12 / cvc5 1.0.3", "assumed stdlib contracts listed under assumptions"},
			"functions_under_contract": res.Functions,
			"obligations_by_kind":      kinds,
			"discharged_by_backend":    bySolver,
			"property_carrying":        carrying,
			"covers":                   covers,
			"covers_satisfiable":       coversOK,
			"unreachable_returns":      deadReturns,
			"solver_time_s":            float64(res.SolverMs) / 1000,
			"paths":                    res.Paths,
			"known_findings":           known,
			"attempted_not_claimed":    notClaimed,
			"goals_of_other_properties_skipped": ignored,
			"constant_tables_read_from_source": tables,
			"goals":                    ps.Goals,
			"bounded":                  boundedOut,
			"computed_premises":        ps.Computed,
			"samples":                  samples,
			"obligation_list":          evObls,
		},
		"assumptions": assumptions,
		"wall_s":      time.Since(start).Seconds(),
		"violations":  violations,
	}
	if writeEv {
		os.MkdirAll(filepath.Join(verif, "evidence"), 0o755)
		eb, _ := json.MarshalIndent(ev, "", " ")
		os.WriteFile(filepath.Join(verif, "evidence", id+".json"), eb, 0o644)
	}
	fmt.Printf("property=%s tier=%s obligations=%d discharged=%d known_findings=%d not_claimed=%d violations=%d wall=%.1fs\n",
		id, tier, obligations, discharged, len(known), len(notClaimed), violations, time.Since(start).Seconds())
	if violations > 0 {
		return 1
	}
	return 0
}

func writeReplay(dir, id string, r *ObResult, note string, extra map[string]any) string {
	p := filepath.Join(dir, smtFileName(r.Name)+".json")
	m := map[string]any{
		"property":      id,
		"obligation":    r.Name,
		"kind":          r.Kind,
		"status":        r.Status,
		"solver":        r.Solver,
		"solver_output": r.Raw,
		"model":         r.Model,
		"note":          note,
	}
	if r.FailFile != "" {
		// keep the failing query next to the replay file
		if b, err := os.ReadFile(r.FailFile); err == nil {
			q := filepath.Join(dir, smtFileName(r.Name)+".smt2")
			os.WriteFile(q, b, 0o644)
			m["smt_query"] = q
		}
	}
	for k, v := range extra {
		m[k] = v
	}
	b, _ := json.MarshalIndent(m, "", " ")
	os.WriteFile(p, b, 0o644)
	return p
}

func goEnv() []string {
	env := os.Environ()
	env = append(env, "GOFLAGS=-mod=mod", "GOPROXY=off", "GOSUMDB=off", "GOTOOLCHAIN=local")
	return env
}

// runGoTest injects a test file into a package of /repo through -overlay and runs it.
// Returns whether the test FAILED (i.e. the defect reproduces) and the output.
func runGoTest(repo, verif, pkgDir, src, run string, timeoutS int, race bool) (failed bool, out string) {
	scratch, err := os.MkdirTemp(filepath.Join(verif, ".work"), "replay")
	if err != nil {
		os.MkdirAll(filepath.Join(verif, ".work"), 0o755)
		scratch, _ = os.MkdirTemp(filepath.Join(verif, ".work"), "replay")
	}
	defer os.RemoveAll(scratch)
	tf := filepath.Join(scratch, "zz_twv_replay_test.go")
	os.WriteFile(tf, []byte(src), 0o644)
	target := filepath.Join(repo, pkgDir, "zz_twv_replay_test.go")
	ov, _ := json.Marshal(map[string]any{"Replace": map[string]string{target: tf}})
	ovf := filepath.Join(scratch, "ov.json")
	os.WriteFile(ovf, ov, 0o644)
	args := []string{"test", "-overlay", ovf, "-vet=off", "-count=1", fmt.Sprintf("-timeout=%ds", timeoutS), "-run", run}
	if race {
		args = append(args, "-race")
	}
	args = append(args, "./"+pkgDir)
	cmd := exec.Command("go", args...)
	cmd.Dir = repo
	cmd.Env = goEnv()
	b, err := cmd.CombinedOutput()
	return err != nil, string(b)
}

func witnessSource(w *Witness) string {
	pkg := "textwire"
	if w.Pkg != "." && w.Pkg != "" {
		pkg = filepath.Base(w.Pkg)
	}
	var sb strings.Builder
	fmt.Fprintf(&sb, "package %s\n\nimport (\n\t\"testing\"\n", pkg)
	for _, i := range w.Imports {
		fmt.Fprintf(&sb, "\t%q\n", i)
	}
	sb.WriteString(")\n\nfunc TestTwvWitness(t *testing.T) {\n")
	sb.WriteString(w.Code)
	sb.WriteString("\n}\n")
	return sb.String()
}

func runWitness(repo, verif string, w *Witness) (bool, string) {
	to := 20
	if w.Timeout > 0 {
		to = w.Timeout
	}
	dir := w.Pkg
	if dir == "" {
		dir = "."
	}
	failed, out := runGoTest(repo, verif, dir, witnessSource(w), "TestTwvWitness", to, w.Observe == "race")
	if strings.Contains(out, "[build failed]") || strings.Contains(out, "[setup failed]") {
		return false, "witness does not build:\n" + out
	}
	return failed, out
}

func runBounded(repo, verif string, bs BoundedSpec) (bool, string, float64) {
	start := time.Now()
	src, err := os.ReadFile(filepath.Join(verif, "bounded", bs.File))
	if err != nil {
		return false, err.Error(), 0
	}
	failed, out := runGoTest(repo, verif, bs.Pkg, string(src), bs.Run, 1500, false)
	return !failed, out, time.Since(start).Seconds()
}
