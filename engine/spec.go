package main

// Translation of contract expressions (Go expression syntax plus old/forall/implies/...)
// into SMT terms over a symbolic state.

import (
	"fmt"
	"go/ast"
	"go/constant"
	"go/parser"
	"go/token"
	"go/types"
	"math/big"
	"strconv"
	"strings"

	"golang.org/x/tools/go/ssa"
)

type Env struct {
	x     *Exec
	st    *State // state whose heap is read
	facts *State // state receiving well-typedness assumptions for loaded values
	vars  map[string]Val
	types map[string]types.Type
	pkg   *types.Package
	old   *Env
	isPre bool
	bound map[string]*T
	depth int
	shim  *State
	heads map[int]*Env
	boundTypes map[string]types.Type
}

var untypedInt = types.Typ[types.UntypedInt]

func (e *Env) parse(src string) (ast.Expr, error) {
	s := rewriteImplies(src)
	ex, err := parser.ParseExpr(s)
	if err != nil {
		return nil, fmt.Errorf("parse %q: %v", src, err)
	}
	return ex, nil
}

func (e *Env) evalBool(src string) (t *T, err error) {
	defer func() {
		if r := recover(); r != nil {
			err = fmt.Errorf("%v in %q", r, src)
		}
	}()
	ex, err := e.parse(src)
	if err != nil {
		return nil, err
	}
	v, _ := e.eval(ex)
	e.flush()
	tt, ok := v.(*T)
	if !ok || tt.Sort != SBool {
		return nil, fmt.Errorf("not a boolean: %q", src)
	}
	return tt, nil
}

func (e *Env) evalInt(src string) (t *T, err error) {
	defer func() {
		if r := recover(); r != nil {
			err = fmt.Errorf("%v in %q", r, src)
		}
	}()
	ex, err := e.parse(src)
	if err != nil {
		return nil, err
	}
	v, _ := e.eval(ex)
	e.flush()
	tt, ok := v.(*T)
	if !ok || tt.Sort != SInt {
		return nil, fmt.Errorf("not an integer: %q", src)
	}
	return tt, nil
}

func (e *Env) evalIntList(src string) ([]*T, error) {
	var out []*T
	for _, part := range splitTop(src, ',') {
		t, err := e.evalInt(strings.TrimSpace(part))
		if err != nil {
			return nil, err
		}
		out = append(out, t)
	}
	return out, nil
}

// evalUse instantiates an axiom: use name(args)
func (e *Env) evalUse(src string) (t *T, err error) {
	defer func() {
		if r := recover(); r != nil {
			err = fmt.Errorf("%v in %q", r, src)
		}
	}()
	ex, err := e.parse(src)
	if err != nil {
		return nil, err
	}
	call, ok := ex.(*ast.CallExpr)
	if !ok {
		// a plain boolean fact is not allowed (would be an assumption)
		return nil, fmt.Errorf("use expects axiom(args): %q", src)
	}
	name := call.Fun.(*ast.Ident).Name
	ax := e.x.cs.Axioms[name]
	if ax == nil {
		return nil, fmt.Errorf("unknown axiom %s", name)
	}
	if len(call.Args) != len(ax.Params) {
		return nil, fmt.Errorf("axiom %s: arity", name)
	}
	sub := &Env{x: e.x, st: e.st, facts: e.facts, vars: map[string]Val{}, types: map[string]types.Type{}, pkg: e.x.ld.pkgByName[ax.Pkg], old: nil, depth: e.depth + 1}
	if sub.pkg == nil {
		sub.pkg = e.pkg
	}
	for i, p := range ax.Params {
		v, t := e.eval(call.Args[i])
		pt := e.x.ld.resolveTypeString(ax.Pkg, p.Type)
		if pt != nil {
			t = pt
			v = e.coerce(v, pt)
		}
		sub.vars[p.Name] = v
		sub.types[p.Name] = t
	}
	return sub.evalBool(ax.Body)
}

func (e *Env) coerce(v Val, t types.Type) Val { return v }

func (e *Env) lookupConst(pkg *types.Package, name string) (Val, types.Type, bool) {
	if pkg == nil {
		return nil, nil, false
	}
	obj := pkg.Scope().Lookup(name)
	if obj == nil {
		return nil, nil, false
	}
	switch o := obj.(type) {
	case *types.Const:
		return e.constToVal(o.Val(), o.Type()), o.Type(), true
	case *types.Var:
		// package-level variable
		sp := e.x.ld.prog.Package(pkg)
		if sp != nil {
			if g, ok := sp.Members[name].(*ssa.Global); ok {
				p := &PtrV{Kind: PGlobal, Global: g, Typ: o.Type()}
				if tbl := e.x.ld.constMaps[g]; tbl != nil {
					return IntC(int64(-1000 - tbl.id)), o.Type(), true
				}
				return e.x.loadPtr(e.loadState(), p), o.Type(), true
			}
		}
	}
	return nil, nil, false
}

func (e *Env) loadState() *State {
	// loads read e.st's heap; typing facts of loaded values go to e.facts
	if e.facts == nil {
		return e.st
	}
	if e.shim == nil {
		e.shim = &State{heap: e.st.heap, cellVals: e.st.cellVals, alloc: e.st.alloc, alloc0: e.st.alloc0, events: e.st.events, iters: e.st.iters, nonnil: map[string]bool{}}
	}
	return e.shim
}

func (e *Env) flush() {
	if e.shim != nil && e.facts != nil {
		for _, f := range e.shim.facts {
			if mentionsBound(f) {
				continue // typing facts about a quantified variable's element are not global facts
			}
			e.facts.assumeDef(f)
		}
		e.shim.facts = nil
	}
}

func (e *Env) constToVal(c constant.Value, t types.Type) Val {
	switch c.Kind() {
	case constant.Bool:
		return BoolC(constant.BoolVal(c))
	case constant.String:
		return StrLit(constant.StringVal(c))
	case constant.Int:
		if i, ok := constant.Int64Val(c); ok {
			return IntC(i)
		}
		bi, _ := new(big.Int).SetString(c.ExactString(), 10)
		return IntB(bi)
	case constant.Float:
		f, _ := constant.Float64Val(c)
		if f == 0 {
			return Sym("fzero", SF64)
		}
		return Sym(fmt.Sprintf("fconst!%v", f), SF64)
	}
	panic("constToVal: unsupported " + c.String())
}

func (e *Env) eval(ex ast.Expr) (Val, types.Type) {
	switch n := ex.(type) {
	case *ast.ParenExpr:
		return e.eval(n.X)
	case *ast.BasicLit:
		switch n.Kind {
		case token.INT:
			bi, ok := new(big.Int).SetString(n.Value, 0)
			if !ok {
				panic("bad int literal " + n.Value)
			}
			return IntB(bi), untypedInt
		case token.CHAR:
			r, _, _, err := strconv.UnquoteChar(n.Value[1:len(n.Value)-1], '\'')
			if err != nil {
				panic("bad char literal " + n.Value)
			}
			return IntC(int64(r)), untypedInt
		case token.STRING:
			s, err := strconv.Unquote(n.Value)
			if err != nil {
				panic("bad string literal " + n.Value)
			}
			return StrLit(s), types.Typ[types.String]
		case token.FLOAT:
			f, _ := strconv.ParseFloat(n.Value, 64)
			if f == 0 {
				return Sym("fzero", SF64), types.Typ[types.Float64]
			}
			return Sym(fmt.Sprintf("fconst!%v", f), SF64), types.Typ[types.Float64]
		}
	case *ast.Ident:
		return e.ident(n.Name)
	case *ast.SelectorExpr:
		return e.selector(n)
	case *ast.UnaryExpr:
		v, t := e.eval(n.X)
		switch n.Op {
		case token.NOT:
			return Not(e.x.scalar(v)), types.Typ[types.Bool]
		case token.SUB:
			return Neg(e.x.scalar(v)), t
		case token.ADD:
			return v, t
		}
	case *ast.BinaryExpr:
		return e.binary(n)
	case *ast.CallExpr:
		return e.callExpr(n)
	case *ast.IndexExpr:
		xv, xt := e.eval(n.X)
		iv, _ := e.eval(n.Index)
		switch u := xt.Underlying().(type) {
		case *types.Basic:
			if u.Info()&types.IsString != 0 {
				return Sat(e.x.scalar(xv), e.x.scalar(iv)), types.Typ[types.Uint8]
			}
		case *types.Slice:
			s := xv.(*SliceV)
			p := &PtrV{Kind: PElem, Base: s.Base, Idx: Add(s.Off, e.x.scalar(iv)), ElemT: u.Elem(), Typ: u.Elem()}
			return e.x.loadPtr(e.loadState(), p), u.Elem()
		case *types.Map:
			val, ok := e.x.mapLoad(e.loadState(), xt, e.x.scalar(xv), iv)
			return e.x.valIte(ok, val, e.x.zero(u.Elem()), u.Elem()), u.Elem()
		}
		panic(fmt.Sprintf("index of %s", xt))
	case *ast.SliceExpr:
		xv, xt := e.eval(n.X)
		if b, ok := xt.Underlying().(*types.Basic); ok && b.Info()&types.IsString != 0 {
			s := e.x.scalar(xv)
			lo := IntC(0)
			hi := Slen(s)
			if n.Low != nil {
				l, _ := e.eval(n.Low)
				lo = e.x.scalar(l)
			}
			if n.High != nil {
				h, _ := e.eval(n.High)
				hi = e.x.scalar(h)
			}
			return Ssub(s, lo, hi), xt
		}
		panic("slice expression on non-string in contract")
	case *ast.StarExpr:
		v, t := e.eval(n.X)
		p := v.(*PtrV)
		return e.x.loadPtr(e.loadState(), p), t.Underlying().(*types.Pointer).Elem()
	}
	panic(fmt.Sprintf("unsupported contract expression %T", ex))
}

func (e *Env) ident(name string) (Val, types.Type) {
	if e.bound != nil {
		if b, ok := e.bound[name]; ok {
			if t, ok := e.boundTypes[name]; ok {
				return b, t
			}
			return b, types.Typ[types.Int]
		}
	}
	switch name {
	case "true":
		return TTrue, types.Typ[types.Bool]
	case "false":
		return TFalse, types.Typ[types.Bool]
	case "nil":
		return nil, types.Typ[types.UntypedNil]
	}
	if v, ok := e.vars[name]; ok {
		return v, e.types[name]
	}
	if v, t, ok := e.lookupConst(e.pkg, name); ok {
		return v, t
	}
	panic("unknown identifier " + name)
}

func (e *Env) selector(n *ast.SelectorExpr) (Val, types.Type) {
	// pkg.Name
	if id, ok := n.X.(*ast.Ident); ok {
		if _, isVar := e.vars[id.Name]; !isVar && (e.bound == nil || e.bound[id.Name] == nil) {
			if p := e.x.ld.pkgByName[id.Name]; p != nil {
				if v, t, ok := e.lookupConst(p, n.Sel.Name); ok {
					return v, t
				}
				panic("unknown " + id.Name + "." + n.Sel.Name)
			}
		}
	}
	xv, xt := e.eval(n.X)
	return e.field(xv, xt, n.Sel.Name)
}

func (e *Env) field(xv Val, xt types.Type, name string) (Val, types.Type) {
	if pt, ok := xt.Underlying().(*types.Pointer); ok {
		p := xv.(*PtrV)
		st, ok := pt.Elem().Underlying().(*types.Struct)
		if !ok {
			panic("field of pointer to non-struct")
		}
		for i := 0; i < st.NumFields(); i++ {
			if st.Field(i).Name() == name {
				np := e.fieldPtr(p, pt.Elem(), name, st.Field(i).Type())
				return e.x.loadPtr(e.loadState(), np), st.Field(i).Type()
			}
		}
		// ghost field
		for _, g := range e.x.ghostFields[structName(pt.Elem())] {
			if g.name == name {
				np := e.fieldPtr(p, pt.Elem(), name, g.typ)
				return e.x.loadPtr(e.loadState(), np), g.typ
			}
		}
		panic("no field " + name + " in " + pt.Elem().String())
	}
	if st, ok := xt.Underlying().(*types.Struct); ok {
		sv, ok := xv.(*StructV)
		if !ok {
			panic("field of opaque struct")
		}
		for i := 0; i < st.NumFields(); i++ {
			if st.Field(i).Name() == name {
				return sv.F[i], st.Field(i).Type()
			}
		}
		panic("no field " + name)
	}
	// func value pseudo-fields
	if fv, ok := xv.(*FuncV); ok {
		switch name {
		case "fn":
			return fv.Fn, types.Typ[types.Int]
		case "env":
			return fv.Env, types.Typ[types.Int]
		}
	}
	panic(fmt.Sprintf("field %s of %s", name, xt))
}

func (e *Env) fieldPtr(p *PtrV, owner types.Type, name string, ft types.Type) *PtrV {
	switch p.Kind {
	case PObj:
		return &PtrV{Kind: PField, Ref: p.Ref, Owner: owner, Path: name, Typ: ft}
	case PField:
		return &PtrV{Kind: PField, Ref: p.Ref, Owner: p.Owner, Path: joinPath(p.Path, name), Typ: ft}
	case PCell:
		return &PtrV{Kind: PCell, Cell: p.Cell, Path: joinPath(p.Path, name), Typ: ft}
	case PGlobal:
		return &PtrV{Kind: PGlobal, Global: p.Global, Path: joinPath(p.Path, name), Typ: ft}
	case PElem:
		return &PtrV{Kind: PElem, Base: p.Base, Idx: p.Idx, ElemT: p.ElemT, Path: joinPath(p.Path, name), Typ: ft}
	}
	panic("fieldPtr")
}

func isNilExpr(ex ast.Expr) bool {
	id, ok := ex.(*ast.Ident)
	return ok && id.Name == "nil"
}

func (e *Env) isNil(v Val, t types.Type) *T {
	switch x := v.(type) {
	case *PtrV:
		return Eq(e.x.ptrRef(x), IntC(0))
	case *IfaceV:
		return Eq(x.Tag, IntC(0))
	case *SliceV:
		return Eq(x.Base, IntC(0))
	case *FuncV:
		return Eq(x.Fn, IntC(0))
	case *T:
		return Eq(x, IntC(0))
	}
	panic(fmt.Sprintf("nil comparison on %T", v))
}

func (e *Env) binary(n *ast.BinaryExpr) (Val, types.Type) {
	boolT := types.Typ[types.Bool]
	switch n.Op {
	case token.LAND:
		a, _ := e.eval(n.X)
		b, _ := e.eval(n.Y)
		return And(e.x.scalar(a), e.x.scalar(b)), boolT
	case token.LOR:
		a, _ := e.eval(n.X)
		b, _ := e.eval(n.Y)
		return Or(e.x.scalar(a), e.x.scalar(b)), boolT
	case token.EQL, token.NEQ:
		var r *T
		if isNilExpr(n.Y) {
			a, t := e.eval(n.X)
			r = e.isNil(a, t)
		} else if isNilExpr(n.X) {
			b, t := e.eval(n.Y)
			r = e.isNil(b, t)
		} else {
			a, ta := e.eval(n.X)
			b, tb := e.eval(n.Y)
			t := ta
			if ta == untypedInt {
				t = tb
			}
			at, aok := a.(*T)
			bt, bok := b.(*T)
			if aok && bok {
				if at.Sort == SStr {
					r = StrEq(at, bt)
				} else if at.Sort == SF64 {
					r = UF("feq", SBool, at, bt)
				} else {
					r = Eq(at, bt)
				}
			} else {
				r = e.x.valEq(a, b, t)
			}
		}
		if n.Op == token.NEQ {
			r = Not(r)
		}
		return r, boolT
	}
	a, ta := e.eval(n.X)
	b, tb := e.eval(n.Y)
	t := ta
	if ta == untypedInt {
		t = tb
	}
	at, bt := e.x.scalar(a), e.x.scalar(b)
	switch n.Op {
	case token.ADD:
		if at.Sort == SStr {
			return Sconcat(at, bt), t
		}
		return Add(at, bt), t
	case token.SUB:
		return Sub(at, bt), t
	case token.MUL:
		return Mul(at, bt), t
	case token.QUO:
		return TDiv(at, bt), t
	case token.REM:
		return TRem(at, bt), t
	case token.LSS:
		return Lt(at, bt), boolT
	case token.LEQ:
		return Le(at, bt), boolT
	case token.GTR:
		return Gt(at, bt), boolT
	case token.GEQ:
		return Ge(at, bt), boolT
	}
	panic("unsupported operator " + n.Op.String())
}

func exprString(ex ast.Expr) string {
	return types.ExprString(ex)
}

func (e *Env) callExpr(n *ast.CallExpr) (Val, types.Type) {
	boolT := types.Typ[types.Bool]
	intT := types.Typ[types.Int]
	name := ""
	if id, ok := n.Fun.(*ast.Ident); ok {
		name = id.Name
	}
	switch name {
	case "implies":
		a, _ := e.eval(n.Args[0])
		b, _ := e.eval(n.Args[1])
		return Implies(e.x.scalar(a), e.x.scalar(b)), boolT
	case "iff":
		a, _ := e.eval(n.Args[0])
		b, _ := e.eval(n.Args[1])
		return Eq(e.x.scalar(a), e.x.scalar(b)), boolT
	case "ite":
		c, _ := e.eval(n.Args[0])
		a, t := e.eval(n.Args[1])
		b, t2 := e.eval(n.Args[2])
		if t == untypedInt {
			t = t2
		}
		return e.x.valIte(e.x.scalar(c), a, b, t), t
	case "old":
		if e.old == nil {
			if e.isPre {
				return e.eval(n.Args[0])
			}
			panic("old() not available here")
		}
		o := *e.old
		o.bound = e.bound
		o.boundTypes = e.boundTypes
		return o.eval(n.Args[0])
	case "athead":
		// athead(k, e): value of e at the last visit of the head of loop k
		k, _ := strconv.Atoi(exprString(n.Args[0]))
		h := e.heads[k]
		if h == nil {
			panic(fmt.Sprintf("athead(%d): loop head not visited", k))
		}
		o := *h
		o.bound = e.bound
		o.boundTypes = e.boundTypes
		return o.eval(n.Args[1])
	case "len":
		v, t := e.eval(n.Args[0])
		switch x := v.(type) {
		case *T:
			if x.Sort == SStr {
				return Slen(x), intT
			}
			ks, _ := e.x.mapSorts(t)
			dom := Select(e.st.heapArr(mapDomKey(t), ArrSort(SInt, ArrSort(ks, SBool))), x)
			return UF("card!"+string(ks), SInt, dom), intT
		case *SliceV:
			return x.Len, intT
		}
		panic("len of unsupported value")
	case "cap":
		v, _ := e.eval(n.Args[0])
		return v.(*SliceV).Cap, intT
	case "int", "uint", "int64", "uint64", "byte", "uint8", "int32", "rune":
		v, _ := e.eval(n.Args[0])
		return v, e.x.ld.universe(name)
	case "forall", "exists":
		// forall(i, lo, hi, body)
		id := n.Args[0].(*ast.Ident).Name
		lo, _ := e.eval(n.Args[1])
		hi, _ := e.eval(n.Args[2])
		freshCtr++
		bv := &T{Op: "sym", Name: fmt.Sprintf("b!%s!%d", id, freshCtr), Sort: SInt}
		sub := *e
		sub.bound = map[string]*T{}
		for k, v := range e.bound {
			sub.bound[k] = v
		}
		sub.bound[id] = bv
		if e.boundTypes != nil {
			sub.boundTypes = map[string]types.Type{}
			for k, v := range e.boundTypes {
				if k != id {
					sub.boundTypes[k] = v
				}
			}
		}
		body, _ := sub.eval(n.Args[3])
		rng := And(Le(e.x.scalar(lo), bv), Lt(bv, e.x.scalar(hi)))
		if name == "forall" {
			return Forall([]*T{bv}, Implies(rng, e.x.scalar(body))), boolT
		}
		return Exists([]*T{bv}, And(rng, e.x.scalar(body))), boolT
	case "fresh":
		v, _ := e.eval(n.Args[0])
		var r *T
		switch x := v.(type) {
		case *PtrV:
			r = e.x.ptrRef(x)
		case *IfaceV:
			r = x.Ref
		case *SliceV:
			r = x.Base
		case *T:
			r = x
		}
		a0 := e.st.alloc0
		if e.old != nil {
			a0 = e.old.st.alloc
		}
		return Ge(r, a0), boolT
	case "istype":
		v, _ := e.eval(n.Args[0])
		t := e.x.ld.resolveTypeExpr(e.pkg, n.Args[1])
		if t == nil {
			panic("istype: unknown type " + exprString(n.Args[1]))
		}
		return e.x.tagIs(v.(*IfaceV), t), boolT
	case "as":
		// as(x, *object.Int): the dynamic value viewed at that type (unspecified if the tag differs)
		v, _ := e.eval(n.Args[0])
		t := e.x.ld.resolveTypeExpr(e.pkg, n.Args[1])
		if t == nil {
			panic("as: unknown type " + exprString(n.Args[1]))
		}
		return e.x.unbox(e.loadState(), v.(*IfaceV), t), t
	case "allocated":
		// allocated(x): x was allocated before the state in which this is evaluated
		v, _ := e.eval(n.Args[0])
		var r *T
		switch xx := v.(type) {
		case *PtrV:
			r = e.x.ptrRef(xx)
		case *IfaceV:
			r = xx.Ref
		case *SliceV:
			r = xx.Base
		case *T:
			r = xx
		}
		return Lt(r, e.st.alloc), boolT
	case "asptr":
		// asptr(x, *T): the reference x viewed as a pointer of that type
		v, _ := e.eval(n.Args[0])
		t := e.x.ld.resolveTypeExpr(e.pkg, n.Args[1])
		pt, ok := t.(*types.Pointer)
		if !ok {
			panic("asptr: pointer type expected")
		}
		return &PtrV{Kind: PObj, Ref: e.x.scalar(v), Typ: pt.Elem()}, t
	case "tagof":
		v, _ := e.eval(n.Args[0])
		return v.(*IfaceV).Tag, intT
	case "refof":
		v, _ := e.eval(n.Args[0])
		switch x := v.(type) {
		case *IfaceV:
			return x.Ref, intT
		case *PtrV:
			return e.x.ptrRef(x), intT
		case *SliceV:
			return x.Base, intT
		case *T:
			return x, intT
		}
	case "iface":
		// iface(p): the interface value boxing pointer p
		v, t := e.eval(n.Args[0])
		return e.x.makeIface(e.loadState(), v, t), e.x.ld.anyType()
	case "has":
		m, mt := e.eval(n.Args[0])
		k, _ := e.eval(n.Args[1])
		_, ok := e.x.mapLoad(e.loadState(), mt, e.x.scalar(m), k)
		return ok, boolT
	case "lib":
		// lib("strings.ReplaceAll", a, b, c): the (assumed) library function as a spec function
		name, _ := strconv.Unquote(exprString(n.Args[0]))
		var args []*T
		for _, a := range n.Args[1:] {
			v, _ := e.eval(a)
			args = append(args, e.x.scalar(v))
		}
		ret := SStr
		switch name {
		case "strings.Contains", "strings.HasPrefix", "strings.HasSuffix", "utf8.ValidString":
			ret = SBool
		case "utf8.RuneCountInString":
			return UF("runecount", SInt, args...), intT
		case "math.Round", "math.Ceil", "math.Floor", "math.Abs":
			return UF("lib!"+name, SF64, args...), types.Typ[types.Float64]
		}
		if ret == SBool {
			return UF("lib!"+name, ret, args...), boolT
		}
		return UF("lib!"+name, ret, args...), types.Typ[types.String]
	case "f2i":
		// f2i(x): Go's conversion int64(x) of a float (the engine's uninterpreted conversion)
		v, _ := e.eval(n.Args[0])
		return UF("f2i", SInt, e.x.scalar(v)), e.x.ld.universe("int64")
	case "i2f":
		v, _ := e.eval(n.Args[0])
		return UF("i2f", SF64, e.x.scalar(v)), types.Typ[types.Float64]
	case "same":
		// same(a, b): identical values (for floats: the same IEEE value, not the == operator)
		a, ta := e.eval(n.Args[0])
		b, tb := e.eval(n.Args[1])
		if ta == untypedInt {
			ta = tb
		}
		return e.x.valEq(a, b, ta), boolT
	case "rlen":
		v, _ := e.eval(n.Args[0])
		return UF("rvalue.len", SInt, e.x.scalar(v)), intT
	case "rkind":
		v, _ := e.eval(n.Args[0])
		return UF("rvalue.kind", SInt, e.x.scalar(v)), intT
	case "kindof":
		// kindof(x): reflect kind of the dynamic type of interface value x
		v, _ := e.eval(n.Args[0])
		return UF("kindOfTag", SInt, v.(*IfaceV).Tag), intT
	case "emptymap":
		m, mt := e.eval(n.Args[0])
		ks, _ := e.x.mapSorts(mt)
		dom := Select(e.st.heapArr(mapDomKey(mt), ArrSort(SInt, ArrSort(ks, SBool))), e.x.scalar(m))
		freshCtr++
		bv := &T{Op: "sym", Name: fmt.Sprintf("b!k!%d", freshCtr), Sort: ks}
		return Forall([]*T{bv}, Not(Select(dom, bv))), boolT
	case "forallkey":
		// forallkey(m, k, body): for every key k present in map m
		m, mt := e.eval(n.Args[0])
		ks, _ := e.x.mapSorts(mt)
		id := n.Args[1].(*ast.Ident).Name
		freshCtr++
		bv := &T{Op: "sym", Name: fmt.Sprintf("b!%s!%d", id, freshCtr), Sort: ks}
		sub := *e
		sub.bound = map[string]*T{}
		sub.boundTypes = map[string]types.Type{}
		for k, v := range e.bound {
			sub.bound[k] = v
		}
		for k, v := range e.boundTypes {
			sub.boundTypes[k] = v
		}
		sub.bound[id] = bv
		sub.boundTypes[id] = mt.Underlying().(*types.Map).Key()
		body, _ := sub.eval(n.Args[2])
		dom := Select(e.st.heapArr(mapDomKey(mt), ArrSort(SInt, ArrSort(ks, SBool))), e.x.scalar(m))
		return Forall([]*T{bv}, Implies(Select(dom, bv), e.x.scalar(body))), boolT
	case "funcid":
		// funcid(parser.Parser.parseInfixExp): the id of a function
		key := exprString(n.Args[0])
		f := e.x.ld.funcs[key]
		if f == nil {
			panic("funcid: unknown function " + key)
		}
		return IntC(int64(e.x.ld.funcID(f))), intT
	case "strpos":
		// strpos(): byte offset reached by the (innermost) range over a string
		for i := len(e.st.iters) - 1; i >= 0; i-- {
			if e.st.iters[i].pos != nil {
				return e.st.iters[i].pos, intT
			}
		}
		panic("strpos(): no string iteration in scope")
	case "visited":
		// visited(k): k has already been produced by the (innermost) map range loop
		for i := len(e.st.iters) - 1; i >= 0; i-- {
			if e.st.iters[i].visited != nil {
				v, _ := e.eval(n.Args[0])
				return Select(e.st.iters[i].visited, e.x.scalar(v)), boolT
			}
		}
		panic("visited(): no map iteration in scope")
	case "anykey", "allkeys":
		// anykey(table, k, body): disjunction / conjunction over the keys of a constant table
		mv, _ := e.eval(n.Args[0])
		mt := e.x.scalar(mv)
		if !mt.IsInt() || mt.I.Sign() >= 0 {
			panic(name + ": not a constant table")
		}
		tbl := e.x.ld.constMapByID[int(-mt.I.Int64()-1000)]
		id := n.Args[1].(*ast.Ident).Name
		var parts []*T
		for _, k := range tbl.keys {
			sub := *e
			sub.bound = map[string]*T{}
			sub.boundTypes = map[string]types.Type{}
			for kk, v := range e.bound {
				sub.bound[kk] = v
			}
			for kk, v := range e.boundTypes {
				sub.boundTypes[kk] = v
			}
			sub.bound[id] = k
			if k.Sort == SStr {
				sub.boundTypes[id] = types.Typ[types.String]
			} else {
				sub.boundTypes[id] = types.Typ[types.Int]
			}
			b, _ := sub.eval(n.Args[2])
			parts = append(parts, e.x.scalar(b))
		}
		if name == "anykey" {
			return Or(parts...), boolT
		}
		return And(parts...), boolT
	case "maxkeylen":
		mv, _ := e.eval(n.Args[0])
		mt := e.x.scalar(mv)
		tbl := e.x.ld.constMapByID[int(-mt.I.Int64()-1000)]
		mx := 0
		for _, k := range tbl.keys {
			if s, ok := IsStrLit(k); ok && len(s) > mx {
				mx = len(s)
			}
		}
		return IntC(int64(mx)), intT
	case "wrap64":
		v, _ := e.eval(n.Args[0])
		return UFdef("wrap64", SInt, e.x.scalar(v)), intT
	case "string":
		v, _ := e.eval(n.Args[0])
		return UF("sbyte", SStr, e.x.scalar(v)), types.Typ[types.String]
	}
	// method-like calls on values: x.Len() for buffers
	if sel, ok := n.Fun.(*ast.SelectorExpr); ok {
		if _, isPkg := e.x.ld.pkgByName[exprString(sel.X)]; !isPkg || e.vars[exprString(sel.X)] != nil {
			xv, xt := e.eval(sel.X)
			if typeKey(xt) == "*bytes.Buffer" || typeKey(xt) == "bytes.Buffer" {
				_, cur := e.x.bufContent(e.loadState(), xv)
				switch sel.Sel.Name {
				case "Len":
					return Slen(cur), intT
				case "String":
					return cur, types.Typ[types.String]
				}
			}
			panic("unsupported method call in contract: " + exprString(n))
		}
	}
	// spec functions
	if sf := e.x.cs.Specs[name]; sf != nil {
		if len(n.Args) != len(sf.Params) {
			panic("spec " + name + ": arity")
		}
		if e.depth > 40 {
			panic("spec expansion too deep (recursive spec?) " + name)
		}
		rt := e.x.ld.resolveTypeString(sf.Pkg, sf.Ret)
		if rt == nil {
			panic("spec " + name + ": unknown return type " + sf.Ret)
		}
		if sf.Body == "" {
			var args []*T
			for i, a := range n.Args {
				v, t := e.eval(a)
				if pt := e.x.ld.resolveTypeString(sf.Pkg, sf.Params[i].Type); pt != nil {
					t = pt
				}
				if tv, ok := v.(*T); ok {
					args = append(args, tv)
				} else {
					args = append(args, e.x.flatten(v, t)...)
				}
			}
			// heap-dependent spec functions take the heap parts they read as arguments
			for _, rd := range sf.Reads {
				args = append(args, e.readsArgs(sf.Pkg, rd)...)
			}
			ls := e.x.leaves(rt)
			if len(ls) == 1 {
				return UF("spec!"+name, ls[0].sort, args...), rt
			}
			// structured result (e.g. an interface value): one UF per leaf
			ts := make([]*T, len(ls))
			for i, l := range ls {
				ts[i] = UF("spec!"+name+"!"+l.path, l.sort, args...)
			}
			v, _ := e.x.unflatten(rt, ts)
			return v, rt
		}
		e.loadState()
		sub := &Env{x: e.x, st: e.st, facts: e.facts, vars: map[string]Val{}, types: map[string]types.Type{}, pkg: e.x.ld.pkgByName[sf.Pkg], old: e.old, isPre: e.isPre, bound: e.bound, boundTypes: e.boundTypes, depth: e.depth + 1, heads: e.heads, shim: e.shim}
		if sub.pkg == nil {
			sub.pkg = e.pkg
		}
		for i, p := range sf.Params {
			v, t := e.eval(n.Args[i])
			if pt := e.x.ld.resolveTypeString(sf.Pkg, p.Type); pt != nil {
				t = pt
			}
			sub.vars[p.Name] = v
			sub.types[p.Name] = t
		}
		if e.old != nil {
			// old(...) inside the body reads the old heap with the same parameter values
			o := *e.old
			o.vars, o.types, o.pkg = sub.vars, sub.types, sub.pkg
			sub.old = &o
		}
		ex, err := sub.parse(sf.Body)
		if err != nil {
			panic(err.Error())
		}
		v, _ := sub.eval(ex)
		return v, rt
	}
	panic("unknown function in contract: " + exprString(n.Fun))
}

// ghostAssign executes "x.f = e" on the env's state (ghost fields only).
func (e *Env) ghostAssign(lhs, rhs string) (err error) {
	defer func() {
		if r := recover(); r != nil {
			err = fmt.Errorf("%v", r)
		}
	}()
	lx, err := e.parse(lhs)
	if err != nil {
		return err
	}
	sel, ok := lx.(*ast.SelectorExpr)
	if !ok {
		return fmt.Errorf("ghost assignment needs x.f on the left")
	}
	xv, xt := e.eval(sel.X)
	pt, ok := xt.Underlying().(*types.Pointer)
	if !ok {
		return fmt.Errorf("ghost assignment through non-pointer")
	}
	var g *ghostLeaf
	for i, gf := range e.x.ghostFields[structName(pt.Elem())] {
		if gf.name == sel.Sel.Name {
			g = &e.x.ghostFields[structName(pt.Elem())][i]
		}
	}
	if g == nil {
		return fmt.Errorf("%s is not a ghost field", sel.Sel.Name)
	}
	rx, err := e.parse(rhs)
	if err != nil {
		return err
	}
	rv, _ := e.eval(rx)
	p := e.fieldPtr(xv.(*PtrV), pt.Elem(), g.name, g.typ)
	e.x.storePtr(e.st, p, rv)
	return nil
}

// evalModItem evaluates one item of a modifies clause.
func (e *Env) evalModItem(src string) (it ModItem, err error) {
	defer func() {
		if r := recover(); r != nil {
			err = fmt.Errorf("%v", r)
		}
	}()
	it.Text = src
	src = strings.TrimSpace(src)
	if src == "*" {
		it.Kind = "all"
		return it, nil
	}
	if strings.HasSuffix(src, ".*") {
		ex, err := e.parse(strings.TrimSuffix(src, ".*"))
		if err != nil {
			return it, err
		}
		v, t := e.eval(ex)
		pt, ok := t.Underlying().(*types.Pointer)
		if !ok {
			return it, fmt.Errorf("x.* needs a pointer")
		}
		it.Kind, it.Ref, it.Owner = "allfields", e.x.ptrRef(v), pt.Elem()
		if typeKey(pt.Elem()) == "bytes.Buffer" {
			it.Kind = "cell"
		}
		return it, nil
	}
	if (strings.HasPrefix(src, "anyslice(") || strings.HasPrefix(src, "anymap(")) && strings.HasSuffix(src, ")") {
		ts := src[strings.Index(src, "(")+1 : len(src)-1]
		t := e.x.ld.resolveTypeString(e.pkg.Name(), ts)
		if t == nil {
			return it, fmt.Errorf("unknown type %s", ts)
		}
		if strings.HasPrefix(src, "anyslice(") {
			it.Kind, it.ElemT = "anyslice", t
		} else {
			it.Kind, it.MapT = "anymap", t
		}
		return it, nil
	}
	if strings.HasPrefix(src, "anyfield(") && strings.HasSuffix(src, ")") {
		// anyfield(Struct.field): that field of any object of the struct type
		inner := src[len("anyfield(") : len(src)-1]
		i := strings.LastIndex(inner, ".")
		if i < 0 {
			return it, fmt.Errorf("anyfield(Struct.field)")
		}
		t := e.x.ld.resolveTypeString(e.pkg.Name(), inner[:i])
		if t == nil {
			return it, fmt.Errorf("unknown type %s", inner[:i])
		}
		it.Kind, it.Owner, it.Path = "anyfield", t, inner[i+1:]
		return it, nil
	}
	if strings.HasPrefix(src, "contents(") && strings.HasSuffix(src, ")") {
		ex, err := e.parse(src[len("contents(") : len(src)-1])
		if err != nil {
			return it, err
		}
		v, t := e.eval(ex)
		switch u := t.Underlying().(type) {
		case *types.Map:
			it.Kind, it.Ref, it.MapT = "mapc", e.x.scalar(v), t
		case *types.Slice:
			it.Kind, it.Ref, it.ElemT = "slicec", v.(*SliceV).Base, u.Elem()
		default:
			return it, fmt.Errorf("contents() of %s", t)
		}
		return it, nil
	}
	ex, err := e.parse(src)
	if err != nil {
		return it, err
	}
	switch n := ex.(type) {
	case *ast.Ident:
		if _, isVar := e.vars[n.Name]; !isVar {
			if sp := e.x.ld.prog.Package(e.pkg); sp != nil {
				if g, ok := sp.Members[n.Name].(*ssa.Global); ok {
					it.Kind, it.Global = "global", g
					return it, nil
				}
			}
		}
	case *ast.SelectorExpr:
		// global.field ?
		if id, ok := n.X.(*ast.Ident); ok {
			if _, isVar := e.vars[id.Name]; !isVar {
				if sp := e.x.ld.prog.Package(e.pkg); sp != nil {
					if g, ok := sp.Members[id.Name].(*ssa.Global); ok {
						// a global of pointer type: userConfig.TemplateDir is a field of the object
						if pt, ok := g.Type().(*types.Pointer).Elem().Underlying().(*types.Pointer); ok {
							gv := e.x.loadPtr(e.loadState(), &PtrV{Kind: PGlobal, Global: g, Typ: g.Type().(*types.Pointer).Elem()})
							it.Kind, it.Ref, it.Owner, it.Path = "field", e.x.ptrRef(gv), pt.Elem(), n.Sel.Name
							return it, nil
						}
						it.Kind, it.Global, it.Path = "global", g, n.Sel.Name
						return it, nil
					}
				}
			}
		}
		// path: root expression up to the last pointer, then field path
		path := n.Sel.Name
		cur := n.X
		for {
			v, t := e.eval(cur)
			if pt, ok := t.Underlying().(*types.Pointer); ok {
				it.Kind, it.Ref, it.Owner, it.Path = "field", e.x.ptrRef(v), pt.Elem(), path
				return it, nil
			}
			s, ok := cur.(*ast.SelectorExpr)
			if !ok {
				break
			}
			path = s.Sel.Name + "." + path
			cur = s.X
		}
	}
	return it, fmt.Errorf("unsupported modifies item")
}

type namedTerm struct {
	label string
	t     *T
}

// expandConjuncts evaluates a boolean contract expression and, when it is a call of a
// predicate (a spec with a body), returns one term per top-level conjunct of the body
// (recursively), each labelled with its source text.
func (e *Env) expandConjuncts(src string, depth int) (out []namedTerm, err error) {
	defer func() {
		if r := recover(); r != nil {
			err = fmt.Errorf("%v in %q", r, src)
		}
	}()
	ex, perr := e.parse(src)
	if perr != nil {
		return nil, perr
	}
	if call, ok := ex.(*ast.CallExpr); ok && depth < 3 {
		if id, ok := call.Fun.(*ast.Ident); ok {
			if sf := e.x.cs.Specs[id.Name]; sf != nil && sf.Body != "" && len(call.Args) == len(sf.Params) {
				parts := splitAnd(sf.Body)
				if len(parts) > 1 {
					e.loadState()
					sub := &Env{x: e.x, st: e.st, facts: e.facts, vars: map[string]Val{}, types: map[string]types.Type{}, pkg: e.x.ld.pkgByName[sf.Pkg], old: e.old, isPre: e.isPre, bound: e.bound, boundTypes: e.boundTypes, depth: e.depth + 1, heads: e.heads, shim: e.shim}
					if sub.pkg == nil {
						sub.pkg = e.pkg
					}
					for i, p := range sf.Params {
						v, t := e.eval(call.Args[i])
						if pt := e.x.ld.resolveTypeString(sf.Pkg, p.Type); pt != nil {
							t = pt
						}
						sub.vars[p.Name] = v
						sub.types[p.Name] = t
					}
					if e.old != nil {
						o := *e.old
						o.vars, o.types, o.pkg = sub.vars, sub.types, sub.pkg
						sub.old = &o
					}
					for _, part := range parts {
						inner, err := sub.expandConjuncts(part, depth+1)
						if err != nil {
							return nil, err
						}
						for _, nt := range inner {
							out = append(out, namedTerm{id.Name + "." + nt.label, nt.t})
						}
					}
					e.flush()
					return out, nil
				}
			}
		}
	}
	t, err := e.evalBool(src)
	if err != nil {
		return nil, err
	}
	return []namedTerm{{shortExpr(src), t}}, nil
}

// readsArgs: the current heap arrays for one "reads" item of a spec function:
// "Struct.field" (all leaves of that field) or a map type "map[K]V" (domain and values).
func (e *Env) readsArgs(pkg, item string) []*T {
	st := e.st
	if strings.HasPrefix(item, "map[") {
		mt := e.x.ld.resolveTypeString(pkg, item)
		if mt == nil {
			panic("reads: unknown map type " + item)
		}
		ks, et := e.x.mapSorts(mt)
		out := []*T{st.heapArr(mapDomKey(mt), ArrSort(SInt, ArrSort(ks, SBool)))}
		for _, l := range e.x.leaves(et) {
			out = append(out, st.heapArr(mapValKey(mt, l.path), ArrSort(SInt, ArrSort(ks, l.sort))))
		}
		return out
	}
	i := strings.LastIndex(item, ".")
	if i < 0 {
		panic("reads: expected Struct.field or a map type: " + item)
	}
	owner := e.x.ld.resolveTypeString(pkg, item[:i])
	if owner == nil {
		panic("reads: unknown type " + item[:i])
	}
	ft := fieldType(owner, item[i+1:])
	if ft == nil {
		panic("reads: unknown field " + item)
	}
	var out []*T
	for _, l := range e.x.leaves(ft) {
		out = append(out, st.heapArr(fieldKey(owner, joinPath(item[i+1:], l.path)), ArrSort(SInt, l.sort)))
	}
	return out
}
