package main

import (
	"fmt"
	"go/token"
	"go/types"
	"math/big"
	"strings"

	"golang.org/x/tools/go/ssa"
)

func (x *Exec) exec(st *State, fr *Frame, in ssa.Instruction) []*State {
	switch v := in.(type) {
	case *ssa.DebugRef, *ssa.RunDefers:
		return nil
	case *ssa.Alloc:
		t := v.Type().(*types.Pointer).Elem()
		if v.Heap {
			ref := x.allocRef(st)
			p := &PtrV{Kind: PObj, Ref: ref, Typ: t}
			x.storeInit(st, p, x.zero(t))
			fr.regs[v] = p
			x.notePendingInit(st, ref, t)
			// register a name for contract expressions
			if v.Comment != "" {
				fr.cells[v] = x.newCell(v.Comment, t)
			}
		} else {
			c := x.newCell(v.Comment, t)
			fr.cells[v] = c
			st.cellSet(c, x.zero(t))
			fr.regs[v] = &PtrV{Kind: PCell, Cell: c, Typ: t}
		}
	case *ssa.Store:
		p := x.get(fr, v.Addr).(*PtrV)
		val := x.get(fr, v.Val)
		x.checkStore(st, fr, in, p)
		x.checkNonNilStore(st, fr, in, p, val)
		x.checkStoreInv(st, fr, v, p, val)
		if p.Kind != PCell {
			x.checkEscape(st, fr, in, val)
		}
		if p.Kind == PField {
			var keep []pendingInit
			for _, pi := range st.pending {
				if same(pi.ref, p.Ref) && pi.field == structName(p.Owner)+"."+p.Path {
					continue
				}
				keep = append(keep, pi)
			}
			st.pending = keep
		}
		x.storePtr(st, p, val)
	case *ssa.UnOp:
		fr.regs[v] = x.unop(st, fr, v)
	case *ssa.BinOp:
		fr.regs[v] = x.binop(st, fr, v, v.Op, x.get(fr, v.X), x.get(fr, v.Y), v.X.Type())
	case *ssa.FieldAddr:
		p := x.get(fr, v.X).(*PtrV)
		stt := v.X.Type().Underlying().(*types.Pointer).Elem()
		sf := stt.Underlying().(*types.Struct).Field(v.Field)
		np := &PtrV{Typ: sf.Type()}
		switch p.Kind {
		case PObj:
			x.safety(st, fr, in, "nil-deref", Ne(p.Ref, IntC(0)), p.Ref)
			np.Kind, np.Ref, np.Owner, np.Path = PField, p.Ref, stt, sf.Name()
			if isOpaqueStruct(stt) {
				np.Path = "#opaque"
			}
		case PField:
			np.Kind, np.Ref, np.Owner, np.Path = PField, p.Ref, p.Owner, joinPath(p.Path, sf.Name())
		case PCell:
			np.Kind, np.Cell, np.Path = PCell, p.Cell, joinPath(p.Path, sf.Name())
		case PElem:
			np.Kind, np.Base, np.Idx, np.ElemT, np.Path = PElem, p.Base, p.Idx, p.ElemT, joinPath(p.Path, sf.Name())
		case PGlobal:
			np.Kind, np.Global, np.Path = PGlobal, p.Global, joinPath(p.Path, sf.Name())
		}
		fr.regs[v] = np
	case *ssa.Field:
		sv := x.get(fr, v.X)
		if s, ok := sv.(*StructV); ok {
			fr.regs[v] = s.F[v.Field]
		} else {
			// opaque struct value
			fr.regs[v] = x.freshVal(st, v.Type(), "opq")
		}
	case *ssa.IndexAddr:
		idx := x.scalar(x.get(fr, v.Index))
		switch xt := v.X.Type().Underlying().(type) {
		case *types.Slice:
			s := x.get(fr, v.X).(*SliceV)
			st.noteInst(idx)
			x.safety(st, fr, in, "index", And(Ge(idx, IntC(0)), Lt(idx, s.Len)), idx, s.Len)
			fr.regs[v] = &PtrV{Kind: PElem, Base: s.Base, Idx: Add(s.Off, idx), ElemT: xt.Elem(), Typ: xt.Elem()}
		case *types.Pointer:
			// pointer to array
			arr := xt.Elem().Underlying().(*types.Array)
			x.safety(st, fr, in, "index", And(Ge(idx, IntC(0)), Lt(idx, IntC(arr.Len()))), idx)
			p := x.get(fr, v.X).(*PtrV)
			if p.Kind == PGlobal {
				if tbl := x.ld.constArrays[p.Global]; tbl != nil {
					fr.regs[v] = &PtrV{Kind: PElem, Base: IntC(int64(-2000 - tbl.id)), Idx: idx, ElemT: arr.Elem(), Typ: arr.Elem()}
					break
				}
			}
			base := x.ptrRef(p)
			fr.regs[v] = &PtrV{Kind: PElem, Base: base, Idx: idx, ElemT: arr.Elem(), Typ: arr.Elem()}
		default:
			panic("IndexAddr on " + v.X.Type().String())
		}
	case *ssa.Index:
		idx := x.scalar(x.get(fr, v.Index))
		switch xv := x.get(fr, v.X).(type) {
		case *T:
			if xv.Sort == SStr {
				x.safety(st, fr, in, "str-index", And(Ge(idx, IntC(0)), Lt(idx, Slen(xv))), idx, Slen(xv))
				fr.regs[v] = Sat(xv, idx)
				break
			}
			fr.regs[v] = x.freshVal(st, v.Type(), "arr")
		default:
			panic("ssa.Index on " + v.X.Type().String())
		}
	case *ssa.Lookup:
		return x.lookup(st, fr, v)
	case *ssa.Slice:
		fr.regs[v] = x.sliceOp(st, fr, v)
	case *ssa.MakeSlice:
		ln := x.scalar(x.get(fr, v.Len))
		cp := x.scalar(x.get(fr, v.Cap))
		x.safety(st, fr, in, "makeslice-len", And(Ge(ln, IntC(0)), Le(ln, cp)), ln)
		base := x.allocRef(st)
		et := v.Type().Underlying().(*types.Slice).Elem()
		// zero-initialised elements
		for _, l := range x.leaves(et) {
			key := elemKey(et, l.path)
			arr := st.heapArr(key, ArrSort(SInt, ArrSort(SInt, l.sort)))
			z := Fresh("zarr", ArrSort(SInt, l.sort))
			bv := Sym("b!k", SInt)
			st.assumeDef(Forall([]*T{bv}, Eq(Select(z, bv), zeroOfSort(l.sort))))
			st.setHeap(key, Store(arr, base, z))
		}
		fr.regs[v] = &SliceV{Base: base, Off: IntC(0), Len: ln, Cap: cp}
		if x.nnElems[typeKey(et)] && !(ln.IsInt() && ln.I.Sign() == 0) {
			st.unfilled = append(st.unfilled, unfilledSlice{base, ln, et})
		}
	case *ssa.MakeMap:
		ref := x.allocRef(st)
		mt := v.Type()
		dk := mapDomKey(mt)
		ks, _ := x.mapSorts(mt)
		dom := st.heapArr(dk, ArrSort(SInt, ArrSort(ks, SBool)))
		empty := Fresh("emptydom", ArrSort(ks, SBool))
		bv := Sym("b!k", ks)
		st.assumeDef(Forall([]*T{bv}, Not(Select(empty, bv))))
		st.setHeap(dk, Store(dom, ref, empty))
		fr.regs[v] = ref
	case *ssa.MapUpdate:
		m := x.scalar(x.get(fr, v.Map))
		x.safety(st, fr, in, "nil-map", Ne(m, IntC(0)), m)
		mt := v.Map.Type()
		x.checkFrame(st, fr, in, m, mapDomKey(mt))
		if x.nnValues[typeKey(mt)] {
			x.safety(st, fr, in, "nil-value-stored", nonNilVal(x.get(fr, v.Value)))
		}
		x.checkEscape(st, fr, in, x.get(fr, v.Value))
		x.mapStore(st, mt, m, x.get(fr, v.Key), x.get(fr, v.Value))
	case *ssa.MakeInterface:
		if _, isPtr := v.X.Type().Underlying().(*types.Pointer); isPtr && x.nnBoxed[typeKey(v.Type())] {
			x.safety(st, fr, in, "nil-pointer-boxed", Ne(x.ptrRef(x.get(fr, v.X)), IntC(0)))
		}
		fr.regs[v] = x.makeIface(st, x.get(fr, v.X), v.X.Type())
	case *ssa.ChangeInterface:
		fr.regs[v] = x.get(fr, v.X)
	case *ssa.ChangeType:
		fr.regs[v] = x.get(fr, v.X)
	case *ssa.Convert:
		fr.regs[v] = x.convert(st, fr, v, x.get(fr, v.X), v.X.Type(), v.Type())
	case *ssa.TypeAssert:
		return x.typeAssert(st, fr, v)
	case *ssa.Extract:
		fr.regs[v] = x.get(fr, v.Tuple).(TupleV)[v.Index]
	case *ssa.Phi:
		for i, p := range fr.block.Preds {
			if p == fr.prev {
				fr.regs[v] = x.get(fr, v.Edges[i])
				return nil
			}
		}
		panic("phi: predecessor not found")
	case *ssa.MakeClosure:
		fn := v.Fn.(*ssa.Function)
		env := IntC(0)
		var bs []Val
		for _, b := range v.Bindings {
			bv := x.get(fr, b)
			bs = append(bs, bv)
			if p, ok := bv.(*PtrV); ok && p.Kind == PObj && env.IsInt() {
				env = p.Ref
			}
		}
		target := fn
		if strings.HasPrefix(fn.Synthetic, "bound method wrapper") && fn.Object() != nil {
			if tf, ok := fn.Object().(*types.Func); ok {
				if real := x.ld.prog.FuncValue(tf); real != nil {
					target = real
				}
			}
		}
		fv := &FuncV{Fn: IntC(int64(x.ld.funcID(target))), Env: env}
		x.ld.closureBindings[fv] = bs
		fr.regs[v] = fv
	case *ssa.Range:
		// iterator object: remember what is iterated
		it := &rangeIter{x: x.get(fr, v.X), t: v.X.Type(), rng: v}
		fr.regs[v] = it
		if bt, isStr := v.X.Type().Underlying().(*types.Basic); isStr && bt.Info()&types.IsString != 0 {
			st.iters = append(st.iters, iterState{rng: v, pos: IntC(0)})
		}
		if _, isMap := v.X.Type().Underlying().(*types.Map); isMap {
			ks, _ := x.mapSorts(v.X.Type())
			vis := Fresh("visited", ArrSort(ks, SBool))
			m := x.scalar(it.x)
			if m.IsInt() && m.I.Sign() < 0 {
				for _, k := range x.ld.constMapByID[int(-m.I.Int64()-1000)].keys {
					st.assumeDef(Not(Select(vis, k)))
				}
			} else {
				bv := Sym("b!k", ks)
				st.assumeDef(Forall([]*T{bv}, Not(Select(vis, bv))))
			}
			st.iters = append(st.iters, iterState{rng: v, visited: vis})
		}
	case *ssa.Next:
		return x.next(st, fr, v)
	case *ssa.If:
		c := x.scalar(x.get(fr, v.Cond))
		tb, fb := fr.block.Succs[0], fr.block.Succs[1]
		if c.IsTrue() {
			x.jump(st, fr, tb)
			return nil
		}
		if c.IsFalse() {
			x.jump(st, fr, fb)
			return nil
		}
		other := st.clone()
		other.assume(Not(c))
		x.jump(other, other.top(), fb)
		st.assume(c)
		x.jump(st, fr, tb)
		return []*State{other}
	case *ssa.Jump:
		x.jump(st, fr, fr.block.Succs[0])
	case *ssa.Return:
		return x.ret(st, fr, v)
	case *ssa.Panic:
		x.safety(st, fr, in, "panic", TFalse)
		st.dead = true
	case *ssa.Call:
		return x.call(st, fr, v)
	case *ssa.Defer, *ssa.Go, *ssa.Send, *ssa.Select:
		panic(fmt.Sprintf("unsupported instruction %T in %s", in, fr.fn.Name()))
	default:
		panic(fmt.Sprintf("unhandled instruction %T", in))
	}
	return nil
}

type rangeIter struct {
	x   Val
	t   types.Type
	rng *ssa.Range
}

func (x *Exec) allocRef(st *State) *T {
	r := Fresh("new", SInt)
	st.assumeDef(Eq(r, st.alloc))
	na := Fresh("A", SInt)
	st.assumeDef(Eq(na, Add(st.alloc, IntC(1))))
	st.alloc = na
	if st.nonnil != nil {
		st.nonnil[r.String()] = true
	}
	return r
}

// storeInit writes the initial value of a fresh object without frame checks.
func (x *Exec) storeInit(st *State, p *PtrV, v Val) { x.storePtr(st, p, v) }

func (x *Exec) checkStore(st *State, fr *Frame, in ssa.Instruction, p *PtrV) {
	switch p.Kind {
	case PObj:
		x.safety(st, fr, in, "nil-deref", Ne(p.Ref, IntC(0)), p.Ref)
		if _, isStruct := p.Typ.Underlying().(*types.Struct); isStruct && !isOpaqueStruct(p.Typ) {
			x.checkFrame(st, fr, in, p.Ref, "F:"+structName(p.Typ)+".")
		} else {
			x.checkFrame(st, fr, in, p.Ref, cellKey(p.Typ, ""))
		}
	case PField:
		x.checkFrame(st, fr, in, p.Ref, fieldKey(p.Owner, p.Path))
	case PElem:
		x.checkFrame(st, fr, in, p.Base, elemKey(p.ElemT, p.Path))
	case PGlobal:
		x.checkFrameGlobal(st, fr, in, p.Global)
	}
}

// checkNonNilStore: declared non-nil invariants are asserted where a value is stored.
func (x *Exec) checkNonNilStore(st *State, fr *Frame, in ssa.Instruction, p *PtrV, val Val) {
	switch p.Kind {
	case PElem:
		if p.Path == "" && x.nnElems[typeKey(p.ElemT)] {
			x.safety(st, fr, in, "nil-element-stored", nonNilVal(val))
		}
	case PField:
		if x.nnFields[structName(p.Owner)+"."+p.Path] {
			x.safety(st, fr, in, "nil-field-stored", nonNilVal(val))
		}
	}
}

// checkStoreInv: a declared store invariant of a field is asserted when the written object
// was not allocated by the storing function itself (objects under construction are exempt:
// what they must satisfy is stated where they are handed out).
func (x *Exec) checkStoreInv(st *State, fr *Frame, v *ssa.Store, p *PtrV, val Val) {
	if p.Kind != PField || len(x.cs.StoreInvs) == 0 {
		return
	}
	si := x.cs.StoreInvs[structName(p.Owner)+"."+p.Path]
	if si == nil {
		return
	}
	if fa, ok := v.Addr.(*ssa.FieldAddr); ok && locallyAllocated(fr.fn, fa.X, 0) {
		return
	}
	env := x.envFor(st, fr)
	env.vars["v"] = val
	env.types["v"] = v.Val.Type()
	if pk := x.ld.pkgByName[si.Pkg]; pk != nil {
		env.pkg = pk
	}
	t, err := env.evalBool(si.Expr)
	if err != nil {
		x.errors = append(x.errors, fmt.Sprintf("%s: storeinv %s: %v", si.Where, si.Field, err))
		return
	}
	x.safety(st, fr, v, "store-invariant:"+si.Field, t)
}

// checkEscape: a slice made with make([]T, n) for a non-nil element type must be filled
// completely before it is stored, returned or passed on.
func (x *Exec) notePendingInit(st *State, ref *T, t types.Type) {
	stt, ok := t.Underlying().(*types.Struct)
	if !ok || isOpaqueStruct(t) {
		return
	}
	for i := 0; i < stt.NumFields(); i++ {
		name := structName(t) + "." + stt.Field(i).Name()
		if x.nnFields[name] {
			st.pending = append(st.pending, pendingInit{ref, name})
		}
	}
}

func (x *Exec) escapePending(st *State, fr *Frame, in ssa.Instruction, ref *T) {
	var keep []pendingInit
	for _, pi := range st.pending {
		if same(pi.ref, ref) {
			x.safety(st, fr, in, "nonnil-field-never-set:"+pi.field, TFalse)
			continue
		}
		keep = append(keep, pi)
	}
	st.pending = keep
}

func (x *Exec) checkEscape(st *State, fr *Frame, in ssa.Instruction, val Val) {
	if len(st.unfilled) == 0 && len(st.pending) == 0 {
		return
	}
	var check func(v Val)
	check = func(v Val) {
		switch s := v.(type) {
		case *PtrV:
			if s.Kind == PObj {
				x.escapePending(st, fr, in, s.Ref)
			}
		case *IfaceV:
			x.escapePending(st, fr, in, s.Ref)
		case *SliceV:
			var keep []unfilledSlice
			for _, u := range st.unfilled {
				if same(u.base, s.Base) {
					arrT := st.heapArr(elemKey(u.elemT, "#tag"), ArrSort(SInt, ArrSort(SInt, SInt)))
					bv := Sym("b!k", SInt)
					goal := Forall([]*T{bv}, Implies(And(Ge(bv, IntC(0)), Lt(bv, u.n)), Ne(Select(Select(arrT, u.base), bv), IntC(0))))
					x.safety(st, fr, in, "unfilled-slice-escapes", goal)
					continue
				}
				keep = append(keep, u)
			}
			st.unfilled = keep
		case *StructV:
			for _, f := range s.F {
				check(f)
			}
		case TupleV:
			for _, f := range s {
				check(f)
			}
		}
	}
	check(val)
}

func (x *Exec) unop(st *State, fr *Frame, v *ssa.UnOp) Val {
	xv := x.get(fr, v.X)
	switch v.Op {
	case token.MUL:
		p := xv.(*PtrV)
		if p.Kind == PObj {
			x.safety(st, fr, v, "nil-deref", Ne(p.Ref, IntC(0)), p.Ref)
		}
		if p.Kind == PGlobal && p.Global.Name() == "init$guard" {
			return TFalse // the package initialiser is verified for its one real run
		}
		if p.Kind == PGlobal && p.Path == "" {
			if tbl := x.ld.constMaps[p.Global]; tbl != nil {
				return IntC(int64(-1000 - tbl.id))
			}
		}
		return x.loadPtr(st, p)
	case token.NOT:
		return Not(x.scalar(xv))
	case token.SUB:
		t := x.scalar(xv)
		if t.Sort == SF64 {
			return UF("fneg", SF64, t)
		}
		return x.wrap(fr, v.Type(), Neg(t))
	case token.XOR:
		return UF("bitnot", SInt, x.scalar(xv))
	}
	panic("unop " + v.Op.String())
}

func (x *Exec) wrap(fr *Frame, t types.Type, v *T) *T {
	if !fr.wrap64 {
		return v
	}
	if b, ok := t.Underlying().(*types.Basic); ok && (b.Kind() == types.Int64 || b.Kind() == types.Int) {
		if v.IsInt() {
			if v.I.Cmp(maxInt64) <= 0 && v.I.Cmp(new(big.Int).Neg(new(big.Int).Add(maxInt64, big.NewInt(1)))) >= 0 {
				return v
			}
		}
		return UFdef("wrap64", SInt, v)
	}
	return v
}

func (x *Exec) binop(st *State, fr *Frame, in ssa.Instruction, op token.Token, a, b Val, t types.Type) Val {
	switch av := a.(type) {
	case *T:
		bv := x.scalar(b)
		switch av.Sort {
		case SInt:
			if _, isMap := t.Underlying().(*types.Map); isMap {
				if op == token.EQL {
					return Eq(av, bv)
				}
				return Ne(av, bv)
			}
			return x.intBinop(st, fr, in, op, av, bv, t)
		case SBool:
			switch op {
			case token.EQL:
				return Eq(av, bv)
			case token.NEQ:
				return Ne(av, bv)
			case token.AND:
				return And(av, bv)
			case token.OR:
				return Or(av, bv)
			}
		case SStr:
			switch op {
			case token.ADD:
				return Sconcat(av, bv)
			case token.EQL:
				return StrEq(av, bv)
			case token.NEQ:
				return Not(StrEq(av, bv))
			case token.LSS, token.LEQ, token.GTR, token.GEQ:
				return UF("strcmp"+op.String(), SBool, av, bv)
			}
		case SF64:
			switch op {
			case token.ADD:
				return UF("fadd", SF64, av, bv)
			case token.SUB:
				return UF("fsub", SF64, av, bv)
			case token.MUL:
				return UF("fmul", SF64, av, bv)
			case token.QUO:
				return UF("fdiv", SF64, av, bv)
			case token.EQL:
				return UF("feq", SBool, av, bv)
			case token.NEQ:
				return Not(UF("feq", SBool, av, bv))
			case token.LSS:
				return UF("flt", SBool, av, bv)
			case token.LEQ:
				return UF("fle", SBool, av, bv)
			case token.GTR:
				return UF("flt", SBool, bv, av)
			case token.GEQ:
				return UF("fle", SBool, bv, av)
			}
		}
	case *PtrV:
		ra, rb := x.ptrRef(a), x.ptrRef(b)
		if op == token.EQL {
			return Eq(ra, rb)
		}
		return Ne(ra, rb)
	case *IfaceV:
		bi := b.(*IfaceV)
		e := And(Eq(av.Tag, bi.Tag), Eq(av.Ref, bi.Ref))
		if op == token.EQL {
			return e
		}
		return Not(e)
	case *SliceV:
		// comparison with nil only
		e := Eq(av.Base, IntC(0))
		if bs, ok := b.(*SliceV); ok && !bs.Base.IsInt() {
			e = Eq(bs.Base, IntC(0))
		}
		if op == token.EQL {
			return e
		}
		return Not(e)
	case *FuncV:
		bf := b.(*FuncV)
		e := And(Eq(av.Fn, bf.Fn))
		if op == token.EQL {
			return e
		}
		return Not(e)
	case *StructV:
		e := x.valEq(a, b, t)
		if op == token.EQL {
			return e
		}
		return Not(e)
	}
	panic(fmt.Sprintf("binop %s on %T", op, a))
}

func (x *Exec) intBinop(st *State, fr *Frame, in ssa.Instruction, op token.Token, a, b *T, t types.Type) Val {
	switch op {
	case token.ADD:
		return x.wrap(fr, t, Add(a, b))
	case token.SUB:
		r := Sub(a, b)
		if bt, ok := t.Underlying().(*types.Basic); ok && bt.Info()&types.IsUnsigned != 0 {
			// unsigned subtraction wraps; treated as mathematical under an explicit obligation
			x.safety(st, fr, in, "unsigned-underflow", Ge(r, IntC(0)), a, b)
		}
		return x.wrap(fr, t, r)
	case token.MUL:
		return x.wrap(fr, t, Mul(a, b))
	case token.QUO:
		x.safety(st, fr, in, "div-zero", Ne(b, IntC(0)), a, b)
		return x.wrap(fr, t, TDiv(a, b))
	case token.REM:
		x.safety(st, fr, in, "div-zero", Ne(b, IntC(0)), a, b)
		return TRem(a, b)
	case token.EQL:
		return Eq(a, b)
	case token.NEQ:
		return Ne(a, b)
	case token.LSS:
		return Lt(a, b)
	case token.LEQ:
		return Le(a, b)
	case token.GTR:
		return Gt(a, b)
	case token.GEQ:
		return Ge(a, b)
	case token.AND, token.OR, token.XOR, token.SHL, token.SHR, token.AND_NOT:
		return UF("bit"+tokName(op), SInt, a, b)
	}
	panic("intBinop " + op.String())
}

func tokName(op token.Token) string {
	switch op {
	case token.AND:
		return "and"
	case token.OR:
		return "or"
	case token.XOR:
		return "xor"
	case token.SHL:
		return "shl"
	case token.SHR:
		return "shr"
	case token.AND_NOT:
		return "andnot"
	}
	return "op"
}

// ---- strings ----

func Sconcat(a, b *T) *T {
	if s, ok := IsStrLit(a); ok && s == "" {
		return b
	}
	if s, ok := IsStrLit(b); ok && s == "" {
		return a
	}
	if s1, ok := IsStrLit(a); ok {
		if s2, ok := IsStrLit(b); ok {
			return StrLit(s1 + s2)
		}
	}
	return UF("sconcat", SStr, a, b)
}

func Ssub(s, lo, hi *T) *T {
	if lit, ok := IsStrLit(s); ok && lo.IsInt() && hi.IsInt() {
		l, h := lo.I.Int64(), hi.I.Int64()
		if 0 <= l && l <= h && h <= int64(len(lit)) {
			return StrLit(lit[l:h])
		}
	}
	return UF("ssub", SStr, s, lo, hi)
}

// StrEq: equality against a literal is expanded bytewise (extensional); otherwise "=".
func StrEq(a, b *T) *T {
	if b.Op == "app" && b.Name == "ite" {
		return Ite(b.Args[0], StrEq(a, b.Args[1]), StrEq(a, b.Args[2]))
	}
	if a.Op == "app" && a.Name == "ite" {
		return Ite(a.Args[0], StrEq(a.Args[1], b), StrEq(a.Args[2], b))
	}
	la, oka := IsStrLit(a)
	lb, okb := IsStrLit(b)
	if oka && okb {
		return BoolC(la == lb)
	}
	if okb {
		a, b, la, oka = b, a, lb, true
	}
	if oka && len(la) <= 16 {
		if !mentionsBound(b) {
			// (f!eqlit x L) is defined at emission: <=> bytewise equality, and => x = L
			return UF("eqlit", SBool, b, a)
		}
		return bytewiseEq(b, la)
	}
	return Eq(a, b)
}

func bytewiseEq(b *T, la string) *T {
	cs := []*T{Eq(Slen(b), IntC(int64(len(la))))}
	for i := 0; i < len(la); i++ {
		cs = append(cs, Eq(Sat(b, IntC(int64(i))), IntC(int64(la[i]))))
	}
	return And(cs...)
}

func mentionsBound(t *T) bool {
	switch t.Op {
	case "sym":
		return strings.HasPrefix(t.Name, "b!")
	case "app":
		for _, a := range t.Args {
			if mentionsBound(a) {
				return true
			}
		}
	}
	return false
}

func (x *Exec) lookup(st *State, fr *Frame, v *ssa.Lookup) []*State {
	if _, isMap := v.X.Type().Underlying().(*types.Map); !isMap {
		// string index
		s := x.scalar(x.get(fr, v.X))
		i := x.scalar(x.get(fr, v.Index))
		x.safety(st, fr, v, "str-index", And(Ge(i, IntC(0)), Lt(i, Slen(s))), i, Slen(s))
		fr.regs[v] = Sat(s, i)
		return nil
	}
	mt := v.X.Type()
	m := x.scalar(x.get(fr, v.X))
	key := x.get(fr, v.Index)
	if kt, ok := key.(*T); ok {
		st.noteInst(kt)
	}
	val, ok := x.mapLoad(st, mt, m, key)
	if v.CommaOk {
		fr.regs[v] = TupleV{val, ok}
	} else {
		et := mt.Underlying().(*types.Map).Elem()
		fr.regs[v] = x.valIte(ok, val, x.zero(et), et)
	}
	return nil
}

func (x *Exec) mapSorts(mt types.Type) (Sort, types.Type) {
	m := mt.Underlying().(*types.Map)
	kl := x.leaves(m.Key())
	if len(kl) != 1 {
		panic("map key must be scalar: " + mt.String())
	}
	return kl[0].sort, m.Elem()
}

func (x *Exec) mapLoad(st *State, mt types.Type, m *T, key Val) (Val, *T) {
	ks, et := x.mapSorts(mt)
	k := x.scalar(key)
	if m.IsInt() && m.I.Sign() < 0 {
		return x.constMapLoad(st, mt, m, k)
	}
	dom := Select(st.heapArr(mapDomKey(mt), ArrSort(SInt, ArrSort(ks, SBool))), m)
	ok := Select(dom, k)
	ls := x.leaves(et)
	ts := make([]*T, len(ls))
	for i, l := range ls {
		arr := st.heapArr(mapValKey(mt, l.path), ArrSort(SInt, ArrSort(ks, l.sort)))
		ts[i] = Select(Select(arr, m), k)
	}
	val, _ := x.unflatten(et, ts)
	x.assumeLoaded(st, val, et)
	if x.nnValues[typeKey(mt)] {
		st.assume(Implies(ok, nonNilVal(val)))
	}
	return val, ok
}

func (x *Exec) mapStore(st *State, mt types.Type, m *T, key, val Val) {
	ks, et := x.mapSorts(mt)
	k := x.scalar(key)
	dk := mapDomKey(mt)
	domArr := st.heapArr(dk, ArrSort(SInt, ArrSort(ks, SBool)))
	st.setHeap(dk, Store(domArr, m, Store(Select(domArr, m), k, TTrue)))
	ls := x.leaves(et)
	ts := x.flatten(val, et)
	for i, l := range ls {
		vk := mapValKey(mt, l.path)
		arr := st.heapArr(vk, ArrSort(SInt, ArrSort(ks, l.sort)))
		st.setHeap(vk, Store(arr, m, Store(Select(arr, m), k, ts[i])))
	}
}

func (x *Exec) constMapLoad(st *State, mt types.Type, m *T, k *T) (Val, *T) {
	id := int(-m.I.Int64() - 1000)
	tbl := x.ld.constMapByID[id]
	_, et := x.mapSorts(mt)
	var ok *T = TFalse
	val := x.zero(et)
	for i := len(tbl.keys) - 1; i >= 0; i-- {
		var c *T
		if tbl.keys[i].Sort == SStr {
			c = StrEq(tbl.keys[i], k)
		} else {
			c = Eq(tbl.keys[i], k)
		}
		ok = Or(c, ok)
		val = x.valIte(c, tbl.vals[i], val, et)
	}
	return val, ok
}

func (x *Exec) sliceOp(st *State, fr *Frame, v *ssa.Slice) Val {
	xv := x.get(fr, v.X)
	var lo, hi *T
	if v.Low != nil {
		lo = x.scalar(x.get(fr, v.Low))
	} else {
		lo = IntC(0)
	}
	switch s := xv.(type) {
	case *T: // string
		if v.High != nil {
			hi = x.scalar(x.get(fr, v.High))
		} else {
			hi = Slen(s)
		}
		x.safety(st, fr, v, "slice-bounds", And(Le(IntC(0), lo), Le(lo, hi), Le(hi, Slen(s))), lo, hi, Slen(s))
		return Ssub(s, lo, hi)
	case *SliceV:
		if v.High != nil {
			hi = x.scalar(x.get(fr, v.High))
		} else {
			hi = s.Len
		}
		x.safety(st, fr, v, "slice-bounds", And(Le(IntC(0), lo), Le(lo, hi), Le(hi, s.Cap)), lo, hi, s.Cap)
		cp := Sub(s.Cap, lo)
		if v.Max != nil {
			cp = Sub(x.scalar(x.get(fr, v.Max)), lo)
		}
		return &SliceV{Base: s.Base, Off: Add(s.Off, lo), Len: Sub(hi, lo), Cap: cp}
	case *PtrV:
		// slicing an array through its pointer (e.g. varargs)
		arr := v.X.Type().Underlying().(*types.Pointer).Elem().Underlying().(*types.Array)
		if v.High != nil {
			hi = x.scalar(x.get(fr, v.High))
		} else {
			hi = IntC(arr.Len())
		}
		x.safety(st, fr, v, "slice-bounds", And(Le(IntC(0), lo), Le(lo, hi), Le(hi, IntC(arr.Len()))), lo, hi)
		return &SliceV{Base: x.ptrRef(s), Off: lo, Len: Sub(hi, lo), Cap: Sub(IntC(arr.Len()), lo)}
	}
	panic(fmt.Sprintf("slice of %T", xv))
}

// ---- interfaces ----

func (x *Exec) makeIface(st *State, v Val, t types.Type) Val {
	if _, isIface := t.Underlying().(*types.Interface); isIface {
		return v
	}
	tag := IntC(int64(x.ld.typeID(t)))
	switch t.Underlying().(type) {
	case *types.Pointer:
		return &IfaceV{Tag: tag, Ref: x.ptrRef(v)}
	}
	ls := x.leaves(t)
	ts := x.flatten(v, t)
	if len(ls) == 1 {
		name := "box!" + typeKey(t)
		b := UF(name, SInt, ts[0])
		st.assumeDef(Eq(UF("unbox!"+typeKey(t), ls[0].sort, b), ts[0]))
		st.assumeDef(Ge(b, IntC(0)))
		return &IfaceV{Tag: tag, Ref: b}
	}
	b := Fresh("box", SInt)
	st.assumeDef(Ge(b, IntC(0)))
	for i, l := range ls {
		st.assumeDef(Eq(UF("unbox!"+typeKey(t)+"!"+l.path, l.sort, b), ts[i]))
	}
	return &IfaceV{Tag: tag, Ref: b}
}

func (x *Exec) unbox(st *State, i *IfaceV, t types.Type) Val {
	switch u := t.Underlying().(type) {
	case *types.Pointer:
		return &PtrV{Kind: PObj, Ref: i.Ref, Typ: u.Elem()}
	case *types.Interface:
		return i
	}
	ls := x.leaves(t)
	ts := make([]*T, len(ls))
	if len(ls) == 1 {
		ts[0] = UF("unbox!"+typeKey(t), ls[0].sort, i.Ref)
	} else {
		for k, l := range ls {
			ts[k] = UF("unbox!"+typeKey(t)+"!"+l.path, l.sort, i.Ref)
		}
	}
	v, _ := x.unflatten(t, ts)
	x.assumeTypeFacts(st, v, t)
	return v
}

func (x *Exec) tagIs(i *IfaceV, t types.Type) *T {
	if it, ok := t.Underlying().(*types.Interface); ok {
		if it.NumMethods() == 0 {
			return Ne(i.Tag, IntC(0))
		}
		ids := x.implementers(t)
		var alts []*T
		for _, id := range ids {
			alts = append(alts, Eq(i.Tag, IntC(int64(id))))
		}
		return Or(alts...)
	}
	return Eq(i.Tag, IntC(int64(x.ld.typeID(t))))
}

func (x *Exec) implementers(t types.Type) []int {
	it, ok := t.Underlying().(*types.Interface)
	if !ok || it.NumMethods() == 0 {
		return nil
	}
	key := typeKey(t)
	if ids, ok := x.ld.implCache[key]; ok {
		return ids
	}
	var ids []int
	for _, ct := range x.ld.tagTypes {
		if types.Implements(ct, it) {
			ids = append(ids, x.ld.typeID(ct))
		}
	}
	x.ld.implCache[key] = ids
	return ids
}

func (x *Exec) typeAssert(st *State, fr *Frame, v *ssa.TypeAssert) []*State {
	i := x.get(fr, v.X).(*IfaceV)
	ok := x.tagIs(i, v.AssertedType)
	if v.CommaOk {
		val := x.unbox(st, i, v.AssertedType)
		// on failure the value is the zero value
		z := x.zero(v.AssertedType)
		fr.regs[v] = TupleV{x.valIte(ok, val, z, v.AssertedType), ok}
		return nil
	}
	x.safety(st, fr, v, "type-assert", ok, i.Tag)
	fr.regs[v] = x.unbox(st, i, v.AssertedType)
	return nil
}

func (x *Exec) convert(st *State, fr *Frame, in ssa.Instruction, v Val, from, to types.Type) Val {
	fb, fok := from.Underlying().(*types.Basic)
	tb, tok := to.Underlying().(*types.Basic)
	if fok && tok {
		t := x.scalar(v)
		switch {
		case fb.Info()&types.IsInteger != 0 && tb.Info()&types.IsInteger != 0:
			lo, hi := intRange(tb)
			if lo != nil && hi != nil {
				// narrowing conversion: exact modulo semantics
				width := new(big.Int).Add(new(big.Int).Sub(hi.I, lo.I), big.NewInt(1))
				if t.IsInt() && t.I.Cmp(lo.I) >= 0 && t.I.Cmp(hi.I) <= 0 {
					return t
				}
				flo, fhi := intRange(fb)
				if flo != nil && fhi != nil && flo.I.Cmp(lo.I) >= 0 && fhi.I.Cmp(hi.I) <= 0 {
					return t
				}
				if lo.I.Sign() == 0 {
					return app("mod", SInt, t, IntB(width))
				}
				return Sub(app("mod", SInt, Sub(t, lo), IntB(width)), Neg(lo))
			}
			if lo != nil && hi == nil {
				// to uint/uint64: negative values wrap; we keep mathematical value and
				// record the assumption through an obligation
				flo, _ := intRange(fb)
				if flo == nil {
					x.safety(st, fr, in, "convert-negative-to-unsigned", Ge(t, IntC(0)), t)
				}
				return t
			}
			if tb.Kind() == types.Int64 || tb.Kind() == types.Int {
				if fb.Kind() == types.Uint64 || fb.Kind() == types.Uint || fb.Kind() == types.Uintptr {
					// may exceed MaxInt64: wraps
					return Ite(Le(t, IntB(maxInt64)), t, Sub(t, IntB(new(big.Int).Lsh(big.NewInt(1), 64))))
				}
			}
			return t
		case fb.Info()&types.IsInteger != 0 && tb.Info()&types.IsFloat != 0:
			return UF("i2f", SF64, t)
		case fb.Info()&types.IsFloat != 0 && tb.Info()&types.IsInteger != 0:
			return UF("f2i", SInt, t)
		case fb.Info()&types.IsFloat != 0 && tb.Info()&types.IsFloat != 0:
			if fb.Kind() == tb.Kind() {
				return t
			}
			return UF("f2f!"+tb.Name(), SF64, t)
		case fb.Info()&types.IsInteger != 0 && tb.Info()&types.IsString != 0:
			// string(byte) / string(rune)
			return UF("sbyte", SStr, t)
		case fb.Info()&types.IsString != 0 && tb.Info()&types.IsString != 0:
			return t
		}
	}
	// string <-> []byte / []rune
	if fok && fb.Info()&types.IsString != 0 {
		if sl, ok := to.Underlying().(*types.Slice); ok {
			s := x.scalar(v)
			base := x.allocRef(st)
			eb := sl.Elem().Underlying().(*types.Basic)
			var ln *T
			arr := st.heapArr(elemKey(sl.Elem(), ""), ArrSort(SInt, ArrSort(SInt, SInt)))
			content := Fresh("conv", ArrSort(SInt, SInt))
			if eb.Kind() == types.Uint8 {
				ln = Slen(s)
				bv := Sym("b!k", SInt)
				st.assumeDef(Forall([]*T{bv}, Implies(And(Ge(bv, IntC(0)), Lt(bv, ln)), Eq(Select(content, bv), Sat(s, bv)))))
			} else {
				ln = UF("runecount", SInt, s)
				st.assumeDef(And(Ge(ln, IntC(0)), Le(ln, Slen(s))))
				st.assumeDef(Eq(content, UF("runes", ArrSort(SInt, SInt), s)))
			}
			st.setHeap(elemKey(sl.Elem(), ""), Store(arr, base, content))
			return &SliceV{Base: base, Off: IntC(0), Len: ln, Cap: ln}
		}
	}
	if tok && tb.Info()&types.IsString != 0 {
		if sl, ok := from.Underlying().(*types.Slice); ok {
			s := v.(*SliceV)
			arr := st.heapArr(elemKey(sl.Elem(), ""), ArrSort(SInt, ArrSort(SInt, SInt)))
			content := Select(arr, s.Base)
			eb := sl.Elem().Underlying().(*types.Basic)
			if eb.Kind() == types.Uint8 {
				r := UF("bytes2str", SStr, content, s.Off, s.Len)
				st.assumeDef(Eq(Slen(r), s.Len))
				return r
			}
			r := UF("runes2str", SStr, content, s.Off, s.Len)
			st.assumeDef(Ge(Slen(r), s.Len))
			st.assumeDef(Eq(UF("runecount", SInt, r), s.Len))
			return r
		}
	}
	panic(fmt.Sprintf("convert %s -> %s", from, to))
}

// next: iteration step of a range over a map or a string.
func (x *Exec) next(st *State, fr *Frame, v *ssa.Next) []*State {
	it := x.get(fr, v.Iter).(*rangeIter)
	if v.IsString {
		s := x.scalar(it.x)
		// the iterator walks the bytes: it stops at the end of the string, an ASCII byte is
		// its own rune of width one, any other byte starts a rune >= 0x80 of width 1..4
		pi := -1
		for i := range st.iters {
			if st.iters[i].rng == it.rng && st.iters[i].pos != nil {
				pi = i
			}
		}
		if pi < 0 {
			st.iters = append(st.iters, iterState{rng: it.rng, pos: IntC(0)})
			pi = len(st.iters) - 1
		}
		pos := st.iters[pi].pos
		ok := Lt(pos, Slen(s))
		r := Fresh("rng!r", SInt)
		np := Fresh("rng!pos", SInt)
		b := Sat(s, pos)
		st.assumeDef(Implies(ok, And(Ge(r, IntC(0)), Le(r, IntC(1114111)),
			Implies(Lt(b, IntC(128)), And(Eq(r, b), Eq(np, Add(pos, IntC(1))))),
			Implies(Ge(b, IntC(128)), And(Ge(r, IntC(128)), Gt(np, pos), Le(np, Add(pos, IntC(4))), Le(np, Slen(s)))))))
		st.assumeDef(Implies(Not(ok), Eq(np, pos)))
		st.iters[pi].pos = np
		fr.regs[v] = TupleV{ok, pos, r}
		return nil
	}
	mt := it.t
	m := x.scalar(it.x)
	ks, _ := x.mapSorts(mt)
	ok := Fresh("rng!ok", SBool)
	k := Fresh("rng!k", ks)
	kt := mt.Underlying().(*types.Map).Key()
	kv, _ := x.unflatten(kt, []*T{k})
	x.assumeTypeFacts(st, kv, kt)
	st.noteInst(k)
	var vis *T
	visIdx := -1
	for i := range st.iters {
		if st.iters[i].rng == it.rng {
			vis = st.iters[i].visited
			visIdx = i
		}
	}
	var val Val
	if m.IsInt() && m.I.Sign() < 0 {
		// constant table: the key is one of the literal keys (as a term, so that the
		// visited set is extensional on them)
		tbl := x.ld.constMapByID[int(-m.I.Int64()-1000)]
		var alts, all []*T
		_, et := x.mapSorts(mt)
		val = x.zero(et)
		for i := len(tbl.keys) - 1; i >= 0; i-- {
			alts = append(alts, Eq(k, tbl.keys[i]))
			val = x.valIte(Eq(k, tbl.keys[i]), tbl.vals[i], val, et)
			if vis != nil {
				all = append(all, Select(vis, tbl.keys[i]))
			}
		}
		st.assumeDef(Implies(ok, Or(alts...)))
		if vis != nil {
			st.assumeDef(Implies(Not(ok), And(all...)))
		}
	} else {
		var has *T
		val, has = x.mapLoad(st, mt, m, k)
		st.assumeDef(Implies(ok, has))
		if vis != nil {
			dom := Select(st.heapArr(mapDomKey(mt), ArrSort(SInt, ArrSort(ks, SBool))), m)
			bv := Sym("b!k", ks)
			st.assumeDef(Implies(Not(ok), Forall([]*T{bv}, Implies(Select(dom, bv), Select(vis, bv)))))
		}
	}
	if vis != nil {
		st.assumeDef(Implies(ok, Not(Select(vis, k))))
		nv := Fresh("visited", vis.Sort)
		st.assumeDef(Eq(nv, Ite(ok, Store(vis, k, TTrue), vis)))
		st.iters[visIdx].visited = nv
	}
	fr.regs[v] = TupleV{ok, kv, val}
	return nil
}

func (x *Exec) ret(st *State, fr *Frame, v *ssa.Return) []*State {
	var res Val
	switch len(v.Results) {
	case 0:
		res = nil
	case 1:
		res = x.get(fr, v.Results[0])
	default:
		var tv TupleV
		for _, r := range v.Results {
			tv = append(tv, x.get(fr, r))
		}
		res = tv
	}
	if res != nil {
		x.checkEscape(st, fr, v, res)
	}
	if len(st.frames) > 1 {
		// return from an inlined call
		st.frames = st.frames[:len(st.frames)-1]
		parent := st.top()
		if val, ok := fr.call.(ssa.Value); ok && res != nil {
			parent.regs[val] = res
		}
		return nil
	}
	x.atReturn(st, fr, v, res)
	st.frames = nil
	return nil
}

func (x *Exec) atReturn(st *State, fr *Frame, v *ssa.Return, res Val) {
	c := x.topC
	site := sites(fr.fn).names[v]
	x.emitCover(st, x.topKey+"/cover:"+site)
	if fr.fn.Name() == "init" {
		// package initialisation establishes the declared global invariants
		for i, gi := range x.cs.GlobalInvs {
			if x.ld.pkgByName[gi.Label] != fnPkg(fr.fn) {
				continue
			}
			ge := &Env{x: x, st: st, vars: map[string]Val{}, types: map[string]types.Type{}, pkg: fnPkg(fr.fn), facts: st}
			x.checkClauses(st, ge, []Clause{{Label: fmt.Sprintf("globalinv%d", i), Expr: gi.Expr, Where: gi.Where}}, "post", x.topKey, site, false)
		}
	}
	if c == nil {
		return
	}
	env := x.envFor(st, fr)
	x.bindResults(env, fr.fn, res)
	for _, g := range c.Ghost {
		if err := env.ghostAssign(g.LHS, g.RHS); err != nil {
			x.errors = append(x.errors, fmt.Sprintf("%s: ghost: %v", g.Where, err))
		}
	}
	env = x.envFor(st, fr)
	x.bindResults(env, fr.fn, res)
	for _, u := range c.UsesPost {
		t, err := env.evalUse(u.Expr)
		if err != nil {
			x.errors = append(x.errors, fmt.Sprintf("%s: use@post: %v", u.Where, err))
			continue
		}
		st.assumeUse(t)
	}
	if rs := c.Rets[site]; len(rs) > 0 {
		x.checkClauses(st, env, rs, "assert", x.topKey, site, true)
	}
	x.checkClauses(st, env, c.Ensures, "post", x.topKey, site, false)
	// goals must not strengthen the path for later goals
	x.checkClauses(st, env, c.Goals, "goal", x.topKey, site, true)
}

func (x *Exec) bindResults(env *Env, f *ssa.Function, res Val) {
	rs := f.Signature.Results()
	if rs.Len() == 0 {
		return
	}
	if rs.Len() == 1 {
		env.vars["result"] = res
		env.types["result"] = rs.At(0).Type()
		env.vars["result0"] = res
		env.types["result0"] = rs.At(0).Type()
		return
	}
	tv := res.(TupleV)
	for i := 0; i < rs.Len(); i++ {
		n := fmt.Sprintf("result%d", i)
		env.vars[n] = tv[i]
		env.types[n] = rs.At(i).Type()
	}
}

func trimPkg(s string) string {
	if i := strings.LastIndex(s, "/"); i >= 0 {
		return s[i+1:]
	}
	return s
}

// checkNonNilInit: a struct with declared non-nil fields must have them stored in the
// same block as its allocation (composite literal), before any call or branch.
func (x *Exec) checkNonNilInit(st *State, fr *Frame, al *ssa.Alloc, t types.Type) {
	stt, ok := t.Underlying().(*types.Struct)
	if !ok || isOpaqueStruct(t) {
		return
	}
	for i := 0; i < stt.NumFields(); i++ {
		name := structName(t) + "." + stt.Field(i).Name()
		if !x.nnFields[name] {
			continue
		}
		found := false
		started := false
		for _, in := range al.Block().Instrs {
			if in == ssa.Instruction(al) {
				started = true
				continue
			}
			if !started {
				continue
			}
			if s, ok := in.(*ssa.Store); ok {
				if fa, ok := s.Addr.(*ssa.FieldAddr); ok && fa.X == ssa.Value(al) && fa.Field == i {
					found = true
					break
				}
			}
		}
		if !found {
			x.safety(st, fr, al, "nonnil-field-not-initialised:"+stt.Field(i).Name(), TFalse)
		}
	}
}
