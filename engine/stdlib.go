package main

// Assumed contracts of the standard-library functions called from the packages under
// contract (trusted base; every use is listed in the evidence).

import (
	"fmt"
	"go/types"
	"strings"

	"golang.org/x/tools/go/ssa"
)

func (x *Exec) bufContent(st *State, p Val) (*PtrV, *T) {
	pv := p.(*PtrV)
	// a *bytes.Buffer: object with one leaf "#content"
	fp := &PtrV{Kind: PObj, Ref: pv.Ref, Typ: pv.Typ}
	if pv.Kind != PObj {
		fp = pv
	}
	v := x.loadPtr(st, fp)
	return fp, x.scalar(v)
}

// stdlibWrites: which heap keys a library call may write (for loop havoc).
func (x *Exec) stdlibWrites(f *ssa.Function, c *ssa.CallCommon, li *loopInfo) {
	k := funcKey(f)
	switch {
	case strings.HasPrefix(k, "bytes.Buffer."):
		li.keys["C:bytes.Buffer"] = true
		li.keys["F:bytes.Buffer."] = true
		return
	case k == "sort.Strings", k == "sort.Slice", k == "rand.Shuffle":
		li.keys["*"] = true
		return
	}
	if _, ok := pureStdlib[k]; ok {
		return
	}
	// unknown: any pointer-like argument may be written through
	for _, a := range c.Args {
		switch a.Type().Underlying().(type) {
		case *types.Pointer, *types.Slice, *types.Map, *types.Signature, *types.Interface:
			li.keys["*"] = true
		}
	}
}

// pureStdlib: functions assumed to have no effect on the program's heap; value = note.
var pureStdlib = map[string]string{
	"fmt.Sprintf": "fresh string, no heap effect", "errors.New": "fresh non-nil error", "fmt.Errorf": "fresh non-nil error",
	"strings.Repeat": "requires count >= 0", "strings.ToUpper": "", "strings.ToLower": "", "strings.ReplaceAll": "", "strings.Replace": "",
	"strings.Contains": "", "strings.TrimRight": "", "strings.TrimLeft": "", "strings.Trim": "", "strings.TrimSpace": "", "strings.Split": "fresh slice, len >= 1 when sep != \"\"",
	"strings.Join": "", "strings.HasPrefix": "", "strings.HasSuffix": "", "strings.Index": "", "strings.TrimPrefix": "", "strings.TrimSuffix": "", "strings.Title": "",
	"strconv.ParseInt": "", "strconv.ParseFloat": "", "strconv.ParseUint": "", "strconv.Atoi": "", "strconv.FormatInt": "", "strconv.FormatFloat": "", "strconv.Itoa": "",
	"html.EscapeString": "", "html.UnescapeString": "", "utf8.RuneCountInString": "0 <= result <= len(s)", "utf8.ValidString": "",
	"math.Ceil": "", "math.Floor": "", "math.Round": "", "math.Abs": "", "math.Pow": "",
	"rand.Intn": "requires n > 0; 0 <= result < n", "rand.Seed": "", "rand.Shuffle": "", "rand.New": "fresh generator, no effect on the program heap", "rand.NewSource": "fresh source",
	"time.Now": "", "time.Time.UnixNano": "", "os.ReadFile": "fresh []byte or error", "filepath.Abs": "", "filepath.Clean": "", "filepath.ToSlash": "", "filepath.Join": "", "errors.Is": "",
	"reflect.TypeOf": "", "reflect.ValueOf": "", "reflect.DeepEqual": "",
	"unicode.ToUpper": "", "unicode.IsSpace": "", "unicode.IsUpper": "", "unicode.ToLower": "",
}

func (x *Exec) stdlibCall(st *State, fr *Frame, v *ssa.Call, f *ssa.Function, args []Val, site string) {
	k := funcKey(f)
	rt := v.Type()
	// the library may allocate: results may be fresh references
	na := Fresh("A", SInt)
	st.assumeDef(Gt(na, st.alloc))
	st.alloc = na
	setRes := func(val Val) { fr.regs[v] = val }
	freshRes := func() Val {
		if rt == nil || isEmptyTuple(rt) {
			return nil
		}
		r := x.freshVal(st, rt, "lib!"+shortKey(k))
		fr.regs[v] = r
		return r
	}
	pre := func(label string, goal *T, vals ...*T) {
		x.emit(st, fmt.Sprintf("%s/pre:%s@%s", x.topKey, label, site), "pre", goal, vals)
	}
	use := func(note string) { x.stdlibUsed[k+noteSuffix(note)]++ }
	switch k {
	case "bytes.Buffer.WriteString":
		use("content' = content ++ s")
		p, cur := x.bufContent(st, args[0])
		x.checkStore(st, fr, v, p)
		x.storePtr(st, p, Sconcat(cur, x.scalar(args[1])))
		freshRes()
		return
	case "bytes.Buffer.WriteByte":
		use("content' = content ++ [c]")
		p, cur := x.bufContent(st, args[0])
		x.checkStore(st, fr, v, p)
		x.storePtr(st, p, Sconcat(cur, UF("sbyte", SStr, x.scalar(args[1]))))
		freshRes()
		return
	case "bytes.Buffer.WriteRune":
		use("content' = content ++ utf8(r)")
		p, cur := x.bufContent(st, args[0])
		x.checkStore(st, fr, v, p)
		x.storePtr(st, p, Sconcat(cur, UF("srune", SStr, x.scalar(args[1]))))
		freshRes()
		return
	case "bytes.Buffer.Len":
		use("= len(content)")
		_, cur := x.bufContent(st, args[0])
		setRes(Slen(cur))
		return
	case "bytes.Buffer.String":
		use("= content")
		_, cur := x.bufContent(st, args[0])
		setRes(cur)
		return
	case "bytes.Buffer.Truncate":
		use("requires 0 <= n <= Len()")
		p, cur := x.bufContent(st, args[0])
		n := x.scalar(args[1])
		pre("bytes.Buffer.Truncate.range", And(Ge(n, IntC(0)), Le(n, Slen(cur))), n, Slen(cur))
		x.checkStore(st, fr, v, p)
		x.storePtr(st, p, Ssub(cur, IntC(0), n))
		return
	case "fmt.Fprint", "fmt.Fprintf", "fmt.Fprintln":
		use("writes to its writer only; no effect on the program heap")
		freshRes()
		return
	case "filepath.Walk":
		use("calls the callback for every entry under root in lexical order; only the callback's effects")
		// effects of the callback: whatever its captured variables designate may change
		if fv, ok := args[1].(*FuncV); ok {
			for _, b := range x.ld.closureBindings[fv] {
				if p, ok := b.(*PtrV); ok && p.Kind == PObj {
					cur := x.loadPtr(st, p)
					if mv, ok := cur.(*T); ok {
						if _, isMap := p.Typ.Underlying().(*types.Map); isMap {
							x.havocItem(st, ModItem{Kind: "mapc", Ref: mv, MapT: p.Typ})
						}
					}
				}
			}
		}
		freshRes()
		return
	case "sort.Strings":
		use("permutes the elements of the slice in place (result order is canonical)")
		sl := args[0].(*SliceV)
		et := types.Typ[types.String]
		x.checkFrame(st, fr, v, sl.Base, elemKey(et, ""))
		key := elemKey(et, "")
		arr := st.heapArr(key, ArrSort(SInt, ArrSort(SInt, SStr)))
		old := Select(arr, sl.Base)
		na := Fresh("sorted", ArrSort(SInt, SStr))
		bv := Sym("b!k", SInt)
		perm := UF("perm!"+na.Name, SInt, bv)
		inRange := And(Ge(bv, sl.Off), Lt(bv, Add(sl.Off, sl.Len)))
		st.assumeDef(Forall([]*T{bv}, Ite(inRange,
			And(Eq(Select(na, bv), Select(old, perm)), Ge(perm, sl.Off), Lt(perm, Add(sl.Off, sl.Len))),
			Eq(Select(na, bv), Select(old, bv)))))
		// ... and every old element is still there (the permutation has an inverse)
		inv := UF("inv!"+na.Name, SInt, bv)
		st.assumeDef(Forall([]*T{bv}, Implies(inRange,
			And(Eq(Select(na, inv), Select(old, bv)), Ge(inv, sl.Off), Lt(inv, Add(sl.Off, sl.Len))))))
		st.setHeap(key, Store(arr, sl.Base, na))
		return
	case "strings.Repeat":
		use("requires count >= 0 and len(s)*count <= allocbound")
		n := x.scalar(args[1])
		pre("strings.Repeat.count-nonneg", Ge(n, IntC(0)), n)
		// the result must be allocatable: Repeat panics when len(s)*count overflows and the
		// runtime panics (or dies) on an allocation beyond what the machine has. Declared
		// assumption: allocations of at most allocBound bytes succeed (//@ allocbound N).
		sl0 := Slen(x.scalar(args[0]))
		pre("strings.Repeat.result-size", Or(Eq(sl0, IntC(0)), Le(n, TDiv(IntC(x.allocBound()), sl0))), n, sl0)
		r := UF("lib!strings.Repeat", SStr, x.scalar(args[0]), n)
		st.assumeDef(Eq(Slen(r), Mul(Slen(x.scalar(args[0])), n)))
		setRes(r)
		return
	case "rand.Intn":
		use("requires n > 0; 0 <= result < n")
		n := x.scalar(args[0])
		pre("rand.Intn.positive", Gt(n, IntC(0)), n)
		r := Fresh("rand", SInt)
		st.assumeDef(And(Ge(r, IntC(0)), Lt(r, n)))
		setRes(r)
		return
	case "utf8.RuneCountInString":
		use("0 <= result <= len(s)")
		s := x.scalar(args[0])
		r := UF("runecount", SInt, s)
		st.assumeDef(And(Ge(r, IntC(0)), Le(r, Slen(s))))
		setRes(r)
		return
	case "utf8.DecodeRuneInString":
		use("0 <= size <= len(s); size >= 1 when s is not empty")
		r := freshRes().(TupleV)
		sz := x.scalar(r[1])
		sl := Slen(x.scalar(args[0]))
		st.assumeDef(And(Ge(sz, IntC(0)), Le(sz, sl), Implies(Gt(sl, IntC(0)), Ge(sz, IntC(1)))))
		return
	case "errors.New", "fmt.Errorf":
		use("fresh non-nil error")
		r := freshRes().(*IfaceV)
		st.assumeDef(Ne(r.Tag, IntC(0)))
		return
	case "strings.Split":
		use("fresh slice; len >= 1")
		r := freshRes().(*SliceV)
		st.assumeDef(And(Ge(r.Len, IntC(1)), Ge(r.Base, st.alloc0)))
		st.assumeDef(Implies(UF("lib!strings.Contains", SBool, x.scalar(args[0]), x.scalar(args[1])), Ge(r.Len, IntC(2))))
		return
	case "reflect.Value.Interface":
		use("requires IsValid (not the zero Value) and CanInterface")
		val := x.scalar(args[0])
		pre("reflect.Value.Interface.valid", UF("rvalue.valid", SBool, val), val)
		pre("reflect.Value.Interface.exported", UF("rvalue.caninterface", SBool, val), val)
		freshRes()
		return
	case "reflect.TypeOf", "reflect.ValueOf__kinds":
		use("nil iff the argument is the nil interface; Kind is a function of the dynamic type")
		r := freshRes().(*IfaceV)
		i := args[0].(*IfaceV)
		st.assumeDef(Eq(Eq(r.Tag, IntC(0)), Eq(i.Tag, IntC(0))))
		st.assumeDef(Eq(UF("rtype.kind", SInt, r.Ref), UF("kindOfTag", SInt, i.Tag)))
		st.assumeDef(Eq(UF("rtype.tag", SInt, r.Ref), i.Tag))
		x.kindFacts(st)
		return
	case "reflect.Value.Kind":
		use("pure")
		setRes(UF("rvalue.kind", SInt, x.scalar(args[0])))
		return
	case "reflect.Value.Len":
		use("requires a slice/map/string/array/chan kind; result >= 0")
		n := UF("rvalue.len", SInt, x.scalar(args[0]))
		st.assumeDef(Ge(n, IntC(0)))
		setRes(n)
		return
	case "reflect.Value.String":
		use("pure")
		setRes(UF("rvalue.string", SStr, x.scalar(args[0])))
		return
	case "reflect.ValueOf":
		use("valid iff the argument is a non-nil interface")
		r := freshRes()
		i := args[0].(*IfaceV)
		rv := x.scalar(r)
		st.assumeDef(Eq(UF("rvalue.valid", SBool, rv), Ne(i.Tag, IntC(0))))
		st.assumeDef(UF("rvalue.caninterface", SBool, rv))
		st.assumeDef(Eq(UF("rvalue.tag", SInt, rv), i.Tag))
		st.assumeDef(Eq(UF("rvalue.kind", SInt, rv), UF("kindOfTag", SInt, i.Tag)))
		x.kindFacts(st)
		return
	case "reflect.Value.IsNil":
		use("pure")
		setRes(UF("rvalue.isnil", SBool, x.scalar(args[0])))
		return
	case "reflect.Value.Elem":
		use("requires Kind is Pointer or Interface; the result is valid iff the pointer is not nil")
		r := freshRes()
		st.assumeDef(UF("rvalue.caninterface", SBool, x.scalar(r)))
		st.assumeDef(Eq(UF("rvalue.valid", SBool, x.scalar(r)), Not(UF("rvalue.isnil", SBool, x.scalar(args[0])))))
		return
	case "reflect.Value.Field":
		use("requires struct kind and 0 <= i < NumField; CanInterface iff the field is exported")
		r := freshRes()
		i := x.scalar(args[1])
		st.assumeDef(UF("rvalue.valid", SBool, x.scalar(r)))
		st.assumeDef(Eq(UF("rvalue.caninterface", SBool, x.scalar(r)), UF("rfield.exported", SBool, UF("rvalue.tag", SInt, x.scalar(args[0])), i)))
		return
	case "reflect.Value.Index", "reflect.Value.MapIndex":
		use("Index requires 0 <= i < Len(); result valid (index in range / key present), CanInterface")
		if k == "reflect.Value.Index" {
			i := x.scalar(args[1])
			pre("reflect.Value.Index.range", And(Ge(i, IntC(0)), Lt(i, UF("rvalue.len", SInt, x.scalar(args[0])))), i)
		}
		r := freshRes()
		st.assumeDef(UF("rvalue.valid", SBool, x.scalar(r)))
		st.assumeDef(UF("rvalue.caninterface", SBool, x.scalar(r)))
		return
	case "reflect.Value.MapKeys":
		use("fresh slice of valid keys")
		r := freshRes().(*SliceV)
		st.assumeDef(Ge(r.Base, st.alloc0))
		return
	case "reflect.StructField.IsExported":
		use("pure: exported-ness of that field")
		setRes(UF("sfield.exported", SBool, x.scalar(args[0])))
		return
	case "os.ReadFile":
		use("fresh []byte or error")
		freshRes()
		return
	}
	if note, ok := pureStdlib[k]; ok {
		use(note)
		// deterministic functions of scalar arguments become UFs
		if rt != nil && !isEmptyTuple(rt) {
			ls := x.leaves(rt)
			var flat []*T
			scalarArgs := true
			for i, a := range args {
				at := paramType(f, i)
				switch at.Underlying().(type) {
				case *types.Basic:
					flat = append(flat, x.scalar(a))
				default:
					scalarArgs = false
				}
			}
			if scalarArgs && len(ls) == 1 && deterministicStdlib[k] {
				r := UF("lib!"+k, ls[0].sort, flat...)
				val, _ := x.unflatten(rt, []*T{r})
				x.assumeTypeFacts(st, val, rt)
				setRes(val)
				return
			}
		}
		freshRes()
		return
	}
	// unknown library function
	hasRefArg := false
	for i, a := range args {
		_ = a
		switch paramType(f, i).Underlying().(type) {
		case *types.Pointer, *types.Map, *types.Signature:
			hasRefArg = true
		case *types.Slice:
			hasRefArg = true
		case *types.Interface:
			hasRefArg = true
		}
	}
	if hasRefArg {
		x.havocCall(st, fr, v, "stdlib "+k, site)
		return
	}
	x.stdlibUsed[k+" (unknown: assumed no heap effect, result unconstrained)"]++
	freshRes()
}

var deterministicStdlib = map[string]bool{
	"strings.ToUpper": true, "strings.ToLower": true, "strings.ReplaceAll": true, "strings.Replace": true, "strings.Contains": true,
	"strings.TrimRight": true, "strings.TrimLeft": true, "strings.Trim": true, "strings.TrimSpace": true, "strings.HasPrefix": true, "strings.HasSuffix": true,
	"strings.Index": true, "strings.TrimPrefix": true, "strings.TrimSuffix": true, "strings.Title": true,
	"strconv.FormatInt": true, "strconv.Itoa": true, "strconv.FormatFloat": true, "html.EscapeString": true, "html.UnescapeString": true,
	"filepath.Abs": false, "filepath.Clean": true, "filepath.ToSlash": true, "math.Ceil": true, "math.Floor": true, "math.Round": true, "math.Abs": true, "utf8.ValidString": true,
	"unicode.ToUpper": true, "unicode.IsSpace": true, "unicode.IsUpper": true, "unicode.ToLower": true,
}

func noteSuffix(n string) string {
	if n == "" {
		return " (assumed pure)"
	}
	return " (" + n + ")"
}

func paramType(f *ssa.Function, i int) types.Type {
	sig := f.Signature
	if sig.Recv() != nil {
		if i == 0 {
			return sig.Recv().Type()
		}
		i--
	}
	if i < sig.Params().Len() {
		t := sig.Params().At(i).Type()
		return t
	}
	if sig.Variadic() {
		return sig.Params().At(sig.Params().Len() - 1).Type()
	}
	return types.Typ[types.Int]
}

// kindFacts: reflect.Kind of every type that can be boxed into an interface (go/types).
func (x *Exec) kindFacts(st *State) {
	for _, t := range x.ld.tagTypes {
		k := reflectKind(t)
		if k >= 0 {
			st.assumeDef(Eq(UF("kindOfTag", SInt, IntC(int64(x.ld.typeID(t)))), IntC(int64(k))))
		}
	}
}

func reflectKind(t types.Type) int {
	switch u := t.Underlying().(type) {
	case *types.Basic:
		switch u.Kind() {
		case types.Bool:
			return 1
		case types.Int:
			return 2
		case types.Int8:
			return 3
		case types.Int16:
			return 4
		case types.Int32:
			return 5
		case types.Int64:
			return 6
		case types.Uint:
			return 7
		case types.Uint8:
			return 8
		case types.Uint16:
			return 9
		case types.Uint32:
			return 10
		case types.Uint64:
			return 11
		case types.Float32:
			return 13
		case types.Float64:
			return 14
		case types.String:
			return 24
		}
	case *types.Array:
		return 17
	case *types.Chan:
		return 18
	case *types.Signature:
		return 19
	case *types.Interface:
		return 20
	case *types.Map:
		return 21
	case *types.Pointer:
		return 22
	case *types.Slice:
		return 23
	case *types.Struct:
		return 25
	}
	return -1
}
