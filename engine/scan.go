package main

// Syntactic obligations over the SSA of a property's cone (no solver involved): sources of
// nondeterminism other than map order (C14 D1-D3). Each finding is reported as a named
// obligation with back end "ssa-scan".

import (
	"fmt"
	"go/constant"
	"go/token"
	"go/types"
	"regexp"
	"sort"
	"strings"

	"golang.org/x/tools/go/ssa"
)

// astScanOpts: functions that may write existing syntax-tree nodes (the resolution steps
// whose contracts re-establish what the evaluator relies on)
type astScanOpts struct {
	Allowed []string `json:"allowed"`
}

type scanOpts struct {
	// report reads of package variables that API functions store into (C15)
	SharedReads bool `json:"shared_reads"`
	// entry points from which the scanned cone is extended by reachability
	ReachableFrom []string `json:"reachable_from"`
	// functions allowed to call random / clock sources
	RandomAllowed []string `json:"random_allowed"`
}

var formatForwarders = map[string]int{
	// function key -> index of the format parameter among c.Args
	"fmt.Sprintf": 0, "fmt.Errorf": 0, "fmt.Fprintf": 1, "fmt.Printf": 0,
	"fail.New": 3, "evaluator.Evaluator.newError": 2, "parser.Parser.newError": 2, "fail.FromError": -1,
}

func (x *Exec) scanNondeterminism(funcs []*ssa.Function, opts scanOpts) []*ObResult {
	var out []*ObResult
	allowed := map[string]bool{}
	for _, a := range opts.RandomAllowed {
		allowed[a] = true
	}
	add := func(name string, ok bool, detail string) {
		r := &ObResult{Name: name, Kind: "scan", Status: "proved", Solver: "ssa-scan", Instances: 1}
		if i := strings.Index(name, "/"); i >= 0 {
			r.Func = name[:i]
		}
		if !ok {
			r.Status = "refuted"
			r.Raw = detail
		}
		out = append(out, r)
	}
	for _, f := range funcs {
		key := funcKey(f)
		concurrency, clock := "", ""
		nfmt := 0
		for _, b := range f.Blocks {
			for _, in := range b.Instrs {
				switch v := in.(type) {
				case *ssa.Go, *ssa.Select, *ssa.Send, *ssa.MakeChan:
					concurrency = fmt.Sprintf("%T at %s", in, x.ld.fset.Position(in.Pos()))
				case *ssa.UnOp:
					if v.Op.String() == "<-" {
						concurrency = "channel receive at " + x.ld.fset.Position(in.Pos()).String()
					}
				case ssa.CallInstruction:
					c := v.Common()
					callee := c.StaticCallee()
					if callee == nil {
						continue
					}
					ck := funcKey(callee)
					pkg := ""
					if callee.Pkg != nil {
						pkg = callee.Pkg.Pkg.Path()
					} else if callee.Object() != nil && callee.Object().Pkg() != nil {
						pkg = callee.Object().Pkg().Path()
					}
					if callee.Name() == "init" {
						continue
					}
					switch pkg {
					case "time", "math/rand", "math/rand/v2", "crypto/rand":
						if !allowed[key] {
							clock = ck + " at " + x.ld.fset.Position(in.Pos()).String()
						}
					case "os":
						if strings.HasPrefix(callee.Name(), "Getenv") || callee.Name() == "Getpid" || callee.Name() == "Hostname" {
							clock = ck + " at " + x.ld.fset.Position(in.Pos()).String()
						}
					case "unsafe":
						concurrency = "unsafe at " + x.ld.fset.Position(in.Pos()).String()
					}
					if idx, ok := formatForwarders[ck]; ok && idx >= 0 && idx < len(c.Args) {
						ok2, detail := x.checkFormat(f, c, idx)
						add(fmt.Sprintf("%s/scan:format-deterministic@%s", key, sites(f).names[in]), ok2, detail)
						nfmt++
					}
				}
			}
		}
		add(key+"/scan:no-concurrency-or-unsafe", concurrency == "", concurrency)
		add(key+"/scan:no-clock-or-random-source", clock == "", clock)
	}
	sort.Slice(out, func(i, j int) bool { return out[i].Name < out[j].Name })
	return out
}

var verbRe = regexp.MustCompile(`%[-+# 0]*[0-9*]*(?:\.[0-9*]+)?([a-zA-Z%])`)

// checkFormat: the format is a constant (or a forwarded format parameter), has no %p, and
// no %v/%s/%d... is applied to a value that would print an address.
func (x *Exec) checkFormat(f *ssa.Function, c *ssa.CallCommon, idx int) (bool, string) {
	fa := c.Args[idx]
	var format string
	switch v := fa.(type) {
	case *ssa.Const:
		if v.Value == nil || v.Value.Kind() != constant.String {
			return false, "format is not a string constant"
		}
		format = constant.StringVal(v.Value)
	default:
		// a parameter forwarded by a wrapper whose own call sites are checked, or a value
		// loaded from the parameter's spill slot
		if isParamLoad(f, fa) {
			return true, ""
		}
		if gs, ok := constGlobalString(fa); ok {
			format = gs
			break
		}
		// a computed format with no operands prints itself: deterministic
		if len(c.Args) > idx+1 && len(variadicElems(c.Args[len(c.Args)-1])) == 0 {
			return true, ""
		}
		return false, "format is not a constant: " + fa.String()
	}
	verbs := verbRe.FindAllStringSubmatch(format, -1)
	var vs []string
	for _, m := range verbs {
		if m[1] != "%" {
			vs = append(vs, m[1])
		}
	}
	// variadic args are packed into a slice literal: recover the element values
	var elems []ssa.Value
	if len(c.Args) > idx+1 {
		elems = variadicElems(c.Args[len(c.Args)-1])
	}
	for i, vb := range vs {
		if vb == "p" {
			return false, "%p prints an address: " + format
		}
		if i < len(elems) {
			t := elems[i].Type()
			if mi, ok := elems[i].(*ssa.MakeInterface); ok {
				t = mi.X.Type()
			}
			if vb == "T" {
				continue
			}
			if printsAddress(t) {
				return false, fmt.Sprintf("verb %%%s applied to %s prints an address: %s", vb, t, format)
			}
		}
	}
	return true, ""
}

func isParamLoad(f *ssa.Function, v ssa.Value) bool {
	switch u := v.(type) {
	case *ssa.Parameter:
		return true
	case *ssa.UnOp:
		if al, ok := u.X.(*ssa.Alloc); ok {
			for _, p := range f.Params {
				if al.Comment == p.Name() {
					return true
				}
			}
		}
	}
	return false
}

func variadicElems(v ssa.Value) []ssa.Value {
	sl, ok := v.(*ssa.Slice)
	if !ok {
		return nil
	}
	al, ok := sl.X.(*ssa.Alloc)
	if !ok {
		return nil
	}
	m := map[int64]ssa.Value{}
	max := int64(-1)
	for _, ref := range *al.Referrers() {
		ia, ok := ref.(*ssa.IndexAddr)
		if !ok {
			continue
		}
		c, ok := ia.Index.(*ssa.Const)
		if !ok {
			continue
		}
		i, _ := constant.Int64Val(c.Value)
		for _, r2 := range *ia.Referrers() {
			if st, ok := r2.(*ssa.Store); ok {
				m[i] = st.Val
				if i > max {
					max = i
				}
			}
		}
	}
	var out []ssa.Value
	for i := int64(0); i <= max; i++ {
		out = append(out, m[i])
	}
	return out
}

func printsAddress(t types.Type) bool {
	switch u := t.Underlying().(type) {
	case *types.Pointer:
		// a pointer prints as an address unless the type has String() or Error()
		ms := types.NewMethodSet(t)
		for i := 0; i < ms.Len(); i++ {
			n := ms.At(i).Obj().Name()
			if n == "String" || n == "Error" {
				return false
			}
		}
		if _, isStruct := u.Elem().Underlying().(*types.Struct); isStruct {
			return false // &{...}: fields are printed, not the address
		}
		return true
	case *types.Chan, *types.Signature:
		return true
	case *types.Basic:
		return u.Kind() == types.UnsafePointer
	}
	return false
}

// scanMapRanges: every `range` over a map must be order independent by construction:
// no exit from inside the body that returns anything but constants, and every store in
// the body targets (i) a variable declared in the body, (ii) a map entry keyed by the
// iteration key, or (iii) a field of the iteration value. Loops outside this fragment need
// a functional contract that pins the result (flagged "deterministic-by-contract") or are
// findings.
func (x *Exec) scanMapRanges(funcs []*ssa.Function) []*ObResult {
	var out []*ObResult
	for _, f := range funcs {
		key := funcKey(f)
		x.analyzeLoops(f)
		fc := x.contractFor(f)
		for _, li := range x.loops {
			if !strings.HasPrefix(li.head.Comment, "rangeiter.loop") {
				continue
			}
			// is it a map (not a string) iteration?
			var next *ssa.Next
			for _, in := range li.head.Instrs {
				if n, ok := in.(*ssa.Next); ok {
					next = n
				}
			}
			if next == nil || next.IsString {
				continue
			}
			name := fmt.Sprintf("%s/scan:map-order-independent@loop%d", key, li.index)
			r := &ObResult{Name: name, Func: key, Kind: "scan", Status: "proved", Solver: "ssa-scan", Instances: 1}
			if fc != nil {
				if ls := fc.Loops[li.index]; ls != nil && ls.ByContract {
					// "collect, then sort": the order of the iteration may reach one local
					// slice only, and that slice is sorted on every path to a return
					r.Solver = "ssa-scan (collect-then-sort)"
					why := collectThenSort(f, li)
					if why != "" && pinsResult(fc) {
						// nothing but locals of the iteration and the result variable are
						// written, and a postcondition says what the result is
						r.Solver = "functional-contract"
						why = ""
					}
					if why != "" {
						r.Status = "refuted"
						r.Raw = why
					}
					out = append(out, r)
					continue
				}
			}
			if why := x.mapLoopOrderDependence(f, li, next); why != "" {
				r.Status = "refuted"
				r.Raw = why
			}
			out = append(out, r)
		}
	}
	return out
}

func (x *Exec) mapLoopOrderDependence(f *ssa.Function, li *loopInfo, next *ssa.Next) string {
	// values derived from the iteration: key and value extracts, and locals they are stored in
	keyVals := map[ssa.Value]bool{}
	valVals := map[ssa.Value]bool{}
	for _, ref := range *next.Referrers() {
		if ex, ok := ref.(*ssa.Extract); ok {
			if ex.Index == 1 {
				keyVals[ex] = true
			}
			if ex.Index == 2 {
				valVals[ex] = true
			}
		}
	}
	keyCells := map[*ssa.Alloc]bool{}
	valCells := map[*ssa.Alloc]bool{}
	bodyAllocs := map[*ssa.Alloc]bool{}
	for idx := range li.body {
		for _, in := range f.Blocks[idx].Instrs {
			if al, ok := in.(*ssa.Alloc); ok {
				bodyAllocs[al] = true
			}
			if st, ok := in.(*ssa.Store); ok {
				if al, ok := st.Addr.(*ssa.Alloc); ok {
					if keyVals[st.Val] {
						keyCells[al] = true
					}
					if valVals[st.Val] {
						valCells[al] = true
					}
				}
			}
		}
	}
	isKey := func(v ssa.Value) bool {
		if keyVals[v] {
			return true
		}
		if u, ok := v.(*ssa.UnOp); ok {
			if al, ok := u.X.(*ssa.Alloc); ok && keyCells[al] {
				return true
			}
		}
		return false
	}
	isVal := func(v ssa.Value) bool {
		if valVals[v] {
			return true
		}
		if u, ok := v.(*ssa.UnOp); ok {
			if al, ok := u.X.(*ssa.Alloc); ok && valCells[al] {
				return true
			}
		}
		return false
	}
	// early exits: blocks left from inside the body (not through the head's own exit) that
	// lead to a return must return constants only
	normalExit := map[int]bool{}
	for _, sc := range li.head.Succs {
		if !li.body[sc.Index] {
			normalExit[sc.Index] = true
		}
	}
	seen := map[int]bool{}
	var walk func(b *ssa.BasicBlock) string
	walk = func(b *ssa.BasicBlock) string {
		if seen[b.Index] || li.body[b.Index] || normalExit[b.Index] {
			return ""
		}
		seen[b.Index] = true
		for _, in := range b.Instrs {
			if r, ok := in.(*ssa.Return); ok {
				for _, rv := range r.Results {
					if !returnsConstantAt(f, rv, b) {
						return "an exit from inside the loop returns a value that depends on which element is met first (" + x.ld.fset.Position(r.Pos()).String() + ")"
					}
				}
			}
		}
		for _, sc := range b.Succs {
			if w := walk(sc); w != "" {
				return w
			}
		}
		return ""
	}
	for idx := range li.body {
		if idx == li.head.Index {
			continue
		}
		for _, sc := range f.Blocks[idx].Succs {
			if !li.body[sc.Index] {
				if w := walk(sc); w != "" {
					return w
				}
			}
		}
	}
	for idx := range li.body {
		for _, in := range f.Blocks[idx].Instrs {
			pos := x.ld.fset.Position(in.Pos()).String()
			switch v := in.(type) {
			case *ssa.Return:
				for _, r := range v.Results {
					if !returnsConstant(f, r) {
						return "the loop returns a value that depends on which element is met first (" + pos + ")"
					}
				}
			case *ssa.Store:
				switch a := v.Addr.(type) {
				case *ssa.Alloc:
					if bodyAllocs[a] || a.Comment == "" || strings.HasPrefix(a.Comment, "range") {
						continue
					}
					// result slots written just before a return of constants are fine
					if isResultSlot(f, a) {
						continue
					}
					return "the body assigns " + a.Comment + ", declared outside the loop (" + pos + ")"
				case *ssa.FieldAddr:
					if isVal(a.X) {
						continue
					}
					if al, ok := a.X.(*ssa.Alloc); ok && bodyAllocs[al] {
						continue
					}
					return "the body stores into a field of an object that is not the iteration value (" + pos + ")"
				default:
					return "the body stores through " + v.Addr.String() + " (" + pos + ")"
				}
			case *ssa.MapUpdate:
				if !isKey(v.Key) {
					return "the body updates a map entry not keyed by the iteration key (" + pos + ")"
				}
			case ssa.CallInstruction:
				c := v.Common()
				callee := c.StaticCallee()
				if b, ok := c.Value.(*ssa.Builtin); ok {
					if b.Name() == "append" {
						return "the body appends (order of elements follows map order) (" + pos + ")"
					}
					continue
				}
				if callee != nil {
					ck := funcKey(callee)
					if strings.HasPrefix(ck, "bytes.Buffer.Write") || strings.HasPrefix(ck, "strings.Builder.Write") {
						return "the body writes to a buffer in map order (" + pos + ")"
					}
					if fc := x.contractFor(callee); fc != nil && fc.HasMod && len(fc.Modifies) > 0 {
						return "the body calls " + ck + ", which modifies " + strings.Join(fc.Modifies, ", ") + " (" + pos + ")"
					}
				}
			}
		}
	}
	return ""
}

func returnsConstant(f *ssa.Function, v ssa.Value) bool {
	switch u := v.(type) {
	case *ssa.Const:
		return true
	case *ssa.UnOp:
		// load of a result slot: every store to it inside the function before this return
		// is not tracked precisely; accept only if all stores to the slot are constants
		if al, ok := u.X.(*ssa.Alloc); ok {
			for _, ref := range *al.Referrers() {
				if st, ok := ref.(*ssa.Store); ok {
					if _, isC := st.Val.(*ssa.Const); !isC {
						if mi, ok := st.Val.(*ssa.MakeInterface); ok {
							if _, isC := mi.X.(*ssa.Const); isC {
								continue
							}
						}
						return false
					}
				}
			}
			return true
		}
	}
	return false
}

func isResultSlot(f *ssa.Function, a *ssa.Alloc) bool {
	// naive form: unnamed result slots have an empty comment; named results carry their name
	res := f.Signature.Results()
	for i := 0; i < res.Len(); i++ {
		if res.At(i).Name() != "" && res.At(i).Name() == a.Comment {
			return true
		}
	}
	return false
}

// constGlobalString: a package-level string variable that is only ever assigned a
// constant in the package initialiser.
func constGlobalString(v ssa.Value) (string, bool) {
	u, ok := v.(*ssa.UnOp)
	if !ok {
		return "", false
	}
	g, ok := u.X.(*ssa.Global)
	if !ok || g.Referrers() == nil && false {
		return "", false
	}
	val := ""
	found := false
	for _, m := range g.Pkg.Members {
		fn, ok := m.(*ssa.Function)
		if !ok {
			continue
		}
		for _, b := range fn.Blocks {
			for _, in := range b.Instrs {
				if st, ok := in.(*ssa.Store); ok && st.Addr == ssa.Value(g) {
					c, isC := st.Val.(*ssa.Const)
					if !isC || fn.Name() != "init" || c.Value == nil || c.Value.Kind() != constant.String {
						return "", false
					}
					val = constant.StringVal(c.Value)
					found = true
				}
			}
		}
	}
	return val, found
}

// returnsConstantAt: the returned operand is a constant, or a load of a result slot whose
// last store in the same block is a constant.
func returnsConstantAt(f *ssa.Function, v ssa.Value, b *ssa.BasicBlock) bool {
	if _, ok := v.(*ssa.Const); ok {
		return true
	}
	u, ok := v.(*ssa.UnOp)
	if !ok {
		return false
	}
	al, ok := u.X.(*ssa.Alloc)
	if !ok {
		return false
	}
	var last ssa.Value
	for _, in := range b.Instrs {
		if st, ok := in.(*ssa.Store); ok && st.Addr == ssa.Value(al) {
			last = st.Val
		}
	}
	if last == nil {
		return false
	}
	if _, ok := last.(*ssa.Const); ok {
		return true
	}
	if mi, ok := last.(*ssa.MakeInterface); ok {
		_, isC := mi.X.(*ssa.Const)
		return isC
	}
	return false
}

// scanAstWrites: the syntax tree is written only while it is being built. A store into a
// field of a struct of package ast, into an element of a slice held in such a field, or into
// a map held in such a field must target an object that this very function allocated (a
// composite literal / new in the same body). WFNode is a heap-independent predicate that a
// parse function establishes when it returns the node it built; this obligation is what
// makes that sound: nobody writes the node afterwards. Functions listed in allowed are the
// resolution steps of package ast whose contracts re-establish the guarded children.
func (x *Exec) scanAstWrites(funcs []*ssa.Function, allowed map[string]bool) []*ObResult {
	var out []*ObResult
	for _, f := range funcs {
		key := funcKey(f)
		bad := ""
		n := 0
		for _, b := range f.Blocks {
			for _, in := range b.Instrs {
				var addr ssa.Value
				switch v := in.(type) {
				case *ssa.Store:
					addr = v.Addr
				case *ssa.MapUpdate:
					addr = v.Map
				default:
					continue
				}
				base, isAst := astWriteBase(addr)
				if !isAst {
					continue
				}
				n++
				if st, ok := in.(*ssa.Store); ok {
					if fa, ok := st.Addr.(*ssa.FieldAddr); ok && isAstStructPtr(fa.X.Type()) {
						stt := fa.X.Type().Underlying().(*types.Pointer).Elem()
						fld := stt.Underlying().(*types.Struct).Field(fa.Field).Name()
						if x.cs.StoreInvs[structName(stt)+"."+fld] != nil {
							continue // a declared store invariant is asserted at this store
						}
					}
				}
				if !locallyAllocated(f, base, 0) && bad == "" {
					bad = fmt.Sprintf("store into syntax-tree memory of an object not allocated here at %s", x.ld.fset.Position(in.Pos()))
				}
			}
		}
		if n == 0 {
			continue
		}
		r := &ObResult{Name: key + "/scan:ast-written-only-under-construction", Func: key, Kind: "scan", Status: "proved", Solver: "ssa-scan", Instances: n}
		if bad != "" && !allowed[key] {
			r.Status = "refuted"
			r.Raw = bad
		}
		out = append(out, r)
	}
	return out
}

func isAstStructPtr(t types.Type) bool {
	p, ok := t.Underlying().(*types.Pointer)
	if !ok {
		return false
	}
	n, ok := p.Elem().(*types.Named)
	if !ok || n.Obj().Pkg() == nil {
		return false
	}
	_, isStruct := n.Underlying().(*types.Struct)
	return isStruct && strings.HasSuffix(n.Obj().Pkg().Path(), "/ast")
}

// astWriteBase: if addr is (a location inside) a field of an ast struct, or an element of a
// slice / a map loaded from such a field, returns the pointer to that struct.
func astWriteBase(addr ssa.Value) (ssa.Value, bool) {
	for depth := 0; depth < 8; depth++ {
		switch v := addr.(type) {
		case *ssa.FieldAddr:
			if isAstStructPtr(v.X.Type()) {
				return v.X, true
			}
			addr = v.X
		case *ssa.IndexAddr:
			addr = v.X
		case *ssa.UnOp:
			if v.Op != token.MUL {
				return nil, false
			}
			// a slice or map value loaded from a field
			if fa, ok := v.X.(*ssa.FieldAddr); ok && isAstStructPtr(fa.X.Type()) {
				return fa.X, true
			}
			return nil, false
		default:
			return nil, false
		}
	}
	return nil, false
}

// locallyAllocated: v is a heap allocation of f, or the value of a local variable of f that
// only ever holds such allocations.
func locallyAllocated(f *ssa.Function, v ssa.Value, depth int) bool {
	if depth > 4 {
		return false
	}
	switch a := v.(type) {
	case *ssa.Alloc:
		return a.Heap && a.Parent() == f
	case *ssa.UnOp:
		if a.Op != token.MUL {
			return false
		}
		cell, ok := a.X.(*ssa.Alloc)
		if !ok || cell.Parent() != f {
			return false
		}
		stores := 0
		for _, ref := range *cell.Referrers() {
			switch r := ref.(type) {
			case *ssa.Store:
				if r.Addr != ssa.Value(cell) {
					return false // the variable's address escapes into memory
				}
				stores++
				if !locallyAllocated(f, r.Val, depth+1) {
					return false
				}
			case *ssa.UnOp, *ssa.DebugRef:
			default:
				return false
			}
		}
		return stores > 0
	}
	return false
}

// collectThenSort checks the shape behind "deterministic-by-contract": inside the loop only
// one variable declared outside it is written (the slice the keys are collected in), the
// loop does not return, and sort.Strings is called on that variable in a block that
// dominates every return of the function.
func collectThenSort(f *ssa.Function, li *loopInfo) string {
	var target *ssa.Alloc
	for bi := range li.body {
		b := f.Blocks[bi]
		for _, in := range b.Instrs {
			switch v := in.(type) {
			case *ssa.Return:
				return "the collecting loop returns from inside the iteration"
			case *ssa.Store:
				al, ok := v.Addr.(*ssa.Alloc)
				if !ok {
					continue // element of a fresh array, checked by the frame obligations
				}
				if li.body[al.Block().Index] {
					continue // declared inside the loop
				}
				if target != nil && target != al {
					return fmt.Sprintf("the loop writes two outer variables (%s, %s)", target.Comment, al.Comment)
				}
				target = al
			}
		}
	}
	if target == nil {
		return "no collecting variable found"
	}
	var sortBlock *ssa.BasicBlock
	for _, b := range f.Blocks {
		if li.body[b.Index] {
			continue
		}
		for _, in := range b.Instrs {
			c, ok := in.(*ssa.Call)
			if !ok || c.Common().StaticCallee() == nil || len(c.Common().Args) != 1 {
				continue
			}
			callee := c.Common().StaticCallee()
			if callee.Pkg == nil || callee.Pkg.Pkg.Path() != "sort" || callee.Name() != "Strings" {
				continue
			}
			if u, ok := c.Common().Args[0].(*ssa.UnOp); ok && u.X == ssa.Value(target) {
				sortBlock = b
			}
		}
	}
	if sortBlock == nil {
		return fmt.Sprintf("the collected slice %s is never passed to sort.Strings", target.Comment)
	}
	for _, b := range f.Blocks {
		if len(b.Instrs) == 0 {
			continue
		}
		if _, ok := b.Instrs[len(b.Instrs)-1].(*ssa.Return); ok && !sortBlock.Dominates(b) {
			return fmt.Sprintf("a return is reachable without sorting %s (sort.Strings does not dominate it)", target.Comment)
		}
	}
	return ""
}

// pinsResult: some postcondition of the contract is an equation for the result.
func pinsResult(fc *FuncContract) bool {
	for _, e := range append(append([]Clause{}, fc.Ensures...), fc.Goals...) {
		if strings.HasPrefix(strings.TrimSpace(e.Expr), "result ==") {
			return true
		}
	}
	return false
}

// reachableFrom: the functions of the module that can run when one of the entry points is
// called (class-hierarchy approximation): static callees, closures and function values that
// are mentioned, and for an interface method call every module type that implements the
// interface. Used to scan for sources of nondeterminism outside the hand-written cone.
func (x *Exec) reachableFrom(entries []string) []*ssa.Function {
	seen := map[*ssa.Function]bool{}
	var work []*ssa.Function
	add := func(f *ssa.Function) {
		if f == nil || seen[f] || !inModule(f) {
			return
		}
		if strings.HasPrefix(f.Synthetic, "bound method wrapper") || strings.HasPrefix(f.Synthetic, "wrapper") || strings.HasPrefix(f.Synthetic, "thunk") {
			if tf, ok := f.Object().(*types.Func); ok {
				if real := x.ld.prog.FuncValue(tf); real != nil {
					f = real
					if seen[f] {
						return
					}
				}
			}
		}
		if len(f.Blocks) == 0 {
			return
		}
		seen[f] = true
		work = append(work, f)
	}
	for _, k := range entries {
		add(x.ld.funcs[k])
	}
	// all named types of the module, for interface dispatch
	var named []*types.Named
	for _, p := range x.ld.ppkgByName {
		if p.Types == nil {
			continue
		}
		sc := p.Types.Scope()
		for _, n := range sc.Names() {
			if tn, ok := sc.Lookup(n).(*types.TypeName); ok {
				if nt, ok := tn.Type().(*types.Named); ok {
					named = append(named, nt)
				}
			}
		}
	}
	for len(work) > 0 {
		f := work[len(work)-1]
		work = work[:len(work)-1]
		for _, b := range f.Blocks {
			for _, in := range b.Instrs {
				for _, op := range in.Operands(nil) {
					if op == nil || *op == nil {
						continue
					}
					if fn, ok := (*op).(*ssa.Function); ok {
						add(fn)
					}
				}
				ci, ok := in.(ssa.CallInstruction)
				if !ok {
					continue
				}
				c := ci.Common()
				if c.IsInvoke() {
					iface, ok := c.Value.Type().Underlying().(*types.Interface)
					if !ok {
						continue
					}
					for _, nt := range named {
						for _, t := range []types.Type{nt, types.NewPointer(nt)} {
							if types.IsInterface(t) || !types.Implements(t, iface) {
								continue
							}
							ms := x.ld.prog.MethodSets.MethodSet(t)
							if sel := ms.Lookup(c.Method.Pkg(), c.Method.Name()); sel != nil {
								add(x.ld.prog.MethodValue(sel))
							}
						}
					}
				}
			}
		}
	}
	var out []*ssa.Function
	for f := range seen {
		out = append(out, f)
	}
	sort.Slice(out, func(i, j int) bool { return funcKey(out[i]) < funcKey(out[j]) })
	return out
}

// scanSharedFlagReads (C15): a package-level variable that some API function other than
// package initialisation and Configure stores into is shared mutable state; every read of
// it in the rendering cone races with those stores (and makes a result depend on earlier
// calls). One obligation per reading function and variable.
func (x *Exec) scanSharedFlagReads(funcs []*ssa.Function) []*ObResult {
	written := map[*ssa.Global]string{}
	for _, f := range x.ld.allFuncs {
		if f.Name() == "init" || strings.HasPrefix(f.Name(), "init$") || funcKey(f) == "textwire.Configure" {
			continue
		}
		for _, b := range f.Blocks {
			for _, in := range b.Instrs {
				if st, ok := in.(*ssa.Store); ok {
					if g, ok := st.Addr.(*ssa.Global); ok {
						written[g] = funcKey(f)
					}
				}
			}
		}
	}
	var out []*ObResult
	for _, f := range funcs {
		seen := map[*ssa.Global]bool{}
		for _, b := range f.Blocks {
			for _, in := range b.Instrs {
				u, ok := in.(*ssa.UnOp)
				if !ok || u.Op != token.MUL {
					continue
				}
				g, ok := u.X.(*ssa.Global)
				if !ok || seen[g] {
					continue
				}
				w, isW := written[g]
				if !isW {
					continue
				}
				seen[g] = true
				key := funcKey(f)
				out = append(out, &ObResult{Name: fmt.Sprintf("%s/scan:no-read-of-state-the-api-writes@%s", key, g.Name()), Func: key, Kind: "scan",
					Status: "refuted", Solver: "ssa-scan", Instances: 1,
					Raw: fmt.Sprintf("%s reads package variable %s at %s; %s stores into it", key, g.Name(), x.ld.fset.Position(in.Pos()), w)})
			}
		}
	}
	return out
}

// scanRecursion (C08): termination of recursion is proved call by call as rec-dec obligations,
// which exist only where caller and callee both declare a variant. This scan closes the gap:
// a function of the cone that can reach itself through calls (static calls, closures, function
// values it mentions, interface dispatch over the module's types) must declare `decreases`,
// so that every recursive call on the cycle carries a rec-dec obligation. One obligation per
// function of the cone that lies on a call cycle.
func (x *Exec) scanRecursion(cone []*ssa.Function) []*ObResult {
	var named []*types.Named
	for _, p := range x.ld.ppkgByName {
		if p.Types == nil {
			continue
		}
		sc := p.Types.Scope()
		for _, n := range sc.Names() {
			if tn, ok := sc.Lookup(n).(*types.TypeName); ok {
				if nt, ok := tn.Type().(*types.Named); ok {
					named = append(named, nt)
				}
			}
		}
	}
	norm := func(f *ssa.Function) *ssa.Function {
		if f == nil || !inModule(f) {
			return nil
		}
		if strings.HasPrefix(f.Synthetic, "bound method wrapper") || strings.HasPrefix(f.Synthetic, "wrapper") || strings.HasPrefix(f.Synthetic, "thunk") {
			if tf, ok := f.Object().(*types.Func); ok {
				if real := x.ld.prog.FuncValue(tf); real != nil {
					f = real
				}
			}
		}
		if len(f.Blocks) == 0 {
			return nil
		}
		return f
	}
	succCache := map[*ssa.Function][]*ssa.Function{}
	succs := func(f *ssa.Function) []*ssa.Function {
		if s, ok := succCache[f]; ok {
			return s
		}
		set := map[*ssa.Function]bool{}
		for _, b := range f.Blocks {
			for _, in := range b.Instrs {
				for _, op := range in.Operands(nil) {
					if op == nil || *op == nil {
						continue
					}
					if fn, ok := (*op).(*ssa.Function); ok {
						if g := norm(fn); g != nil {
							set[g] = true
						}
					}
				}
				ci, ok := in.(ssa.CallInstruction)
				if !ok {
					continue
				}
				c := ci.Common()
				if !c.IsInvoke() {
					// a dynamic call through a func type with a family: every member
					if c.StaticCallee() == nil {
						if fam := x.funcTypeFamily(c.Value.Type()); fam != nil {
							for real, ms := range x.funcFamilyMembers() {
								for _, m := range ms {
									if m.fam == fam {
										if g := norm(real); g != nil {
											set[g] = true
										}
									}
								}
							}
						}
					}
					continue
				}
				iface, ok := c.Value.Type().Underlying().(*types.Interface)
				if !ok {
					continue
				}
				for _, nt := range named {
					for _, t := range []types.Type{nt, types.NewPointer(nt)} {
						if types.IsInterface(t) || !types.Implements(t, iface) {
							continue
						}
						ms := x.ld.prog.MethodSets.MethodSet(t)
						if sel := ms.Lookup(c.Method.Pkg(), c.Method.Name()); sel != nil {
							if g := norm(x.ld.prog.MethodValue(sel)); g != nil {
								set[g] = true
							}
						}
					}
				}
			}
		}
		var out []*ssa.Function
		for g := range set {
			out = append(out, g)
		}
		sort.Slice(out, func(i, j int) bool { return funcKey(out[i]) < funcKey(out[j]) })
		succCache[f] = out
		return out
	}
	var out []*ObResult
	for _, f := range cone {
		if f == nil || len(f.Blocks) == 0 {
			continue
		}
		// shortest call cycle through f, if any
		prev := map[*ssa.Function]*ssa.Function{}
		queue := []*ssa.Function{f}
		var last *ssa.Function
	search:
		for len(queue) > 0 {
			g := queue[0]
			queue = queue[1:]
			for _, h := range succs(g) {
				if h == f {
					last = g
					break search
				}
				if _, ok := prev[h]; !ok {
					prev[h] = g
					queue = append(queue, h)
				}
			}
		}
		if last == nil {
			continue
		}
		key := funcKey(f)
		r := &ObResult{Name: key + "/scan:recursion-declares-a-variant", Func: key, Kind: "scan", Status: "proved", Solver: "ssa-scan", Instances: 1}
		if c := x.contractFor(f); c == nil || c.RecDec == nil {
			var cyc []string
			for g := last; g != nil && g != f; g = prev[g] {
				cyc = append([]string{funcKey(g)}, cyc...)
			}
			cyc = append([]string{key}, cyc...)
			cyc = append(cyc, key)
			r.Status = "refuted"
			r.Raw = "call cycle without a declared variant (no `decreases` on " + key + "): " + strings.Join(cyc, " -> ")
		}
		out = append(out, r)
	}
	return out
}
