package main

import (
	"fmt"
	"go/types"
	"regexp"
	"sort"
	"strings"

	"golang.org/x/tools/go/ssa"
	"golang.org/x/tools/go/ssa/ssautil"
)

// Members of a func-type family (`family pkg.FuncType.call(fn, ...)`): every function that
// is converted to the named func type anywhere in the module. A dynamic call through the
// type assumes the family contract, so every member must meet it:
//   - a bound method (p.parseIdentifier) is checked by verifying go/ssa's bound-method
//     wrapper (body: "return recv.method(args)") against the family contract, with fn.env
//     bound to the receiver and fn.fn to the method's id: the method's precondition must
//     follow from the family's, its frame must be inside the family's, its postcondition
//     must give the family's, and its rank must be below the family's;
//   - a plain function or closure gets the family's clauses added to its own contract
//     (as for interface families).
type famMember struct {
	fam     *FuncContract
	wrapper *ssa.Function // bound-method wrapper, nil for plain functions
	real    *ssa.Function
}

func (x *Exec) funcFamilyMembers() map[*ssa.Function][]famMember {
	if x.famMembers != nil {
		return x.famMembers
	}
	out := map[*ssa.Function][]famMember{}
	seen := map[string]bool{}
	var fns []*ssa.Function
	for fn := range ssautil.AllFunctions(x.ld.prog) {
		if inModule(fn) && len(fn.Blocks) > 0 {
			fns = append(fns, fn)
		}
	}
	sort.Slice(fns, func(i, j int) bool { return fns[i].String() < fns[j].String() })
	for _, fn := range fns {
		for _, b := range fn.Blocks {
			for _, in := range b.Instrs {
				ct, ok := in.(*ssa.ChangeType)
				if !ok {
					continue
				}
				fam := x.funcTypeFamily(ct.Type())
				if fam == nil {
					continue
				}
				var m famMember
				switch v := ct.X.(type) {
				case *ssa.MakeClosure:
					f := v.Fn.(*ssa.Function)
					if strings.HasPrefix(f.Synthetic, "bound method wrapper") && f.Object() != nil {
						if tf, ok := f.Object().(*types.Func); ok {
							if real := x.ld.prog.FuncValue(tf); real != nil {
								m = famMember{fam, f, real}
							}
						}
					} else {
						m = famMember{fam, nil, f}
					}
				case *ssa.Function:
					m = famMember{fam, nil, v}
				}
				if m.real == nil || !inModule(m.real) {
					continue
				}
				k := fam.Key + "|" + funcKey(m.real)
				if seen[k] {
					continue
				}
				seen[k] = true
				out[m.real] = append(out[m.real], m)
			}
		}
	}
	x.famMembers = out
	return out
}

// familyContractFor renders the family contract over the parameters of a member:
// fn.env -> envExpr, fn.fn -> funcid(member), the remaining family parameters by position.
func familyContractFor(fam *FuncContract, key string, memberKey string, envExpr string, params []string) *FuncContract {
	fnName := "fn"
	if len(fam.Params) > 0 {
		fnName = fam.Params[0]
	}
	type rep struct {
		re *regexp.Regexp
		to string
	}
	reps := []rep{
		{regexp.MustCompile(`\b` + fnName + `\.env\b`), envExpr},
		{regexp.MustCompile(`\b` + fnName + `\.fn\b`), "funcid(" + memberKey + ")"},
	}
	for i, n := range fam.Params {
		if i == 0 || i-1 >= len(params) || params[i-1] == n || params[i-1] == "" {
			continue
		}
		reps = append(reps, rep{regexp.MustCompile(`\b` + n + `\b`), params[i-1]})
	}
	sub := func(s string) string {
		for _, r := range reps {
			s = r.re.ReplaceAllString(s, r.to)
		}
		return s
	}
	subC := func(cl []Clause) []Clause {
		var out []Clause
		for _, c := range cl {
			c.Expr = sub(c.Expr)
			out = append(out, c)
		}
		return out
	}
	c := &FuncContract{Key: key, Pkg: fam.Pkg, Loops: map[int]*LoopSpec{}, Calls: map[string][]Clause{}, CallUses: map[string][]Clause{}, Where: fam.Where, NoDefault: true}
	c.Requires = subC(fam.Requires)
	c.Ensures = subC(fam.Ensures)
	c.Goals = subC(fam.Goals)
	c.HasMod = fam.HasMod
	for _, m := range fam.Modifies {
		c.Modifies = append(c.Modifies, sub(m))
	}
	if fam.RecDec != nil {
		rd := *fam.RecDec
		rd.Expr = sub(rd.Expr)
		c.RecDec = &rd
	}
	return c
}

// verifyFamilyMembership runs the bound-wrapper checks for a method that was selected for
// verification.
func (x *Exec) verifyFamilyMembership(f *ssa.Function) []string {
	var keys []string
	for _, m := range x.funcFamilyMembers()[f] {
		if m.wrapper == nil {
			continue
		}
		var params []string
		for _, p := range m.wrapper.Params {
			params = append(params, p.Name())
		}
		key := funcKey(f) + "$as-" + shortKey(m.fam.FamIface)
		c := familyContractFor(m.fam, key, funcKey(f), "refof(free_"+m.wrapper.FreeVars[0].Name()+")", params)
		x.keyOverride = key
		x.Verify(m.wrapper, c)
		x.keyOverride = ""
		keys = append(keys, fmt.Sprintf("%s (bound method checked against family %s)", funcKey(f), m.fam.Key))
	}
	return keys
}
