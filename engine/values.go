package main

// Symbolic values, type-directed flattening and the heap model (Burstall-Bornat: one SMT
// array per struct field leaf, per slice element leaf, per map type).

import (
	"fmt"
	"go/types"
	"strings"

	"golang.org/x/tools/go/ssa"
)

type Val interface{}

type StructV struct {
	Typ types.Type // named or struct type
	F   []Val
}

type IfaceV struct{ Tag, Ref *T }

type SliceV struct{ Base, Off, Len, Cap *T }

type FuncV struct{ Fn, Env *T }

type TupleV []Val

type PtrKind int

const (
	PObj    PtrKind = iota // pointer to a heap object (struct, or boxed cell)
	PField                 // interior pointer: field of heap object
	PCell                  // local cell (non-escaping alloc), optional field path
	PElem                  // slice element, optional field path
	PGlobal                // package-level variable, optional field path
)

type cell struct {
	name string
	typ  types.Type
	id   int
}

type PtrV struct {
	Kind   PtrKind
	Ref    *T         // PObj, PField
	Owner  types.Type // PField: struct type that owns Path
	Path   string     // leaf path prefix inside owner ("curToken.Pos")
	Cell   *cell
	Base   *T // PElem
	Idx    *T
	ElemT  types.Type // PElem: element type of the slice
	Global *ssa.Global
	Typ    types.Type // pointee type
}

type leaf struct {
	path string // "" for scalar, "a.b", "#tag"
	sort Sort
	typ  types.Type
}

func typeKey(t types.Type) string {
	s := types.TypeString(t, func(p *types.Package) string { return p.Name() })
	return s
}

func isOpaqueStruct(t types.Type) bool {
	n, ok := t.(*types.Named)
	if !ok {
		return false
	}
	if n.Obj().Pkg() == nil {
		return false
	}
	return !strings.HasPrefix(n.Obj().Pkg().Path(), modulePath)
}

var modulePath = "github.com/textwire/textwire/v2"

func sortOfBasic(b *types.Basic) Sort {
	switch {
	case b.Info()&types.IsBoolean != 0:
		return SBool
	case b.Info()&types.IsString != 0:
		return SStr
	case b.Info()&types.IsFloat != 0:
		return SF64
	case b.Info()&types.IsInteger != 0:
		return SInt
	case b.Kind() == types.UnsafePointer:
		return SInt
	case b.Kind() == types.UntypedNil:
		return SInt
	}
	return SInt
}

// leaves flattens a Go type into scalar leaves.
func (x *Exec) leaves(t types.Type) []leaf {
	key := typeKey(t)
	if l, ok := x.leafCache[key]; ok {
		return l
	}
	var out []leaf
	switch u := t.Underlying().(type) {
	case *types.Basic:
		out = []leaf{{"", sortOfBasic(u), t}}
	case *types.Pointer, *types.Map, *types.Chan:
		out = []leaf{{"", SInt, t}}
	case *types.Signature:
		out = []leaf{{"#fn", SInt, t}, {"#env", SInt, t}}
	case *types.Interface:
		out = []leaf{{"#tag", SInt, t}, {"#ref", SInt, t}}
	case *types.Slice:
		out = []leaf{{"#base", SInt, t}, {"#off", SInt, t}, {"#len", SInt, t}, {"#cap", SInt, t}}
	case *types.Struct:
		if isOpaqueStruct(t) {
			if typeKey(t) == "bytes.Buffer" {
				out = []leaf{{"#content", SStr, t}}
			} else {
				out = []leaf{{"#opaque", SInt, t}}
			}
			break
		}
		for i := 0; i < u.NumFields(); i++ {
			f := u.Field(i)
			for _, l := range x.leaves(f.Type()) {
				out = append(out, leaf{joinPath(f.Name(), l.path), l.sort, l.typ})
			}
		}
		if n, ok := t.(*types.Named); ok {
			for _, g := range x.ghostFields[n.Obj().Pkg().Name()+"."+n.Obj().Name()] {
				out = append(out, leaf{g.name, g.sort, g.typ})
			}
		}
	case *types.Array:
		out = []leaf{{"#opaque", SInt, t}}
	case *types.Tuple:
		for i := 0; i < u.Len(); i++ {
			for _, l := range x.leaves(u.At(i).Type()) {
				out = append(out, leaf{joinPath(fmt.Sprintf("%d", i), l.path), l.sort, l.typ})
			}
		}
	default:
		out = []leaf{{"#opaque", SInt, t}}
	}
	x.leafCache[key] = out
	return out
}

func joinPath(a, b string) string {
	if b == "" {
		return a
	}
	if a == "" {
		return b
	}
	if strings.HasPrefix(b, "#") {
		return a + b
	}
	return a + "." + b
}

// flatten a value of type t into leaf terms (same order as leaves(t)).
func (x *Exec) flatten(v Val, t types.Type) []*T {
	switch u := t.Underlying().(type) {
	case *types.Basic, *types.Map, *types.Chan:
		return []*T{x.scalar(v)}
	case *types.Pointer:
		return []*T{x.ptrRef(v)}
	case *types.Signature:
		f, ok := v.(*FuncV)
		if !ok {
			if tt, ok := v.(*T); ok {
				return []*T{tt, IntC(0)}
			}
			panic(fmt.Sprintf("flatten: not a func value: %T", v))
		}
		return []*T{f.Fn, f.Env}
	case *types.Interface:
		i, ok := v.(*IfaceV)
		if !ok {
			panic(fmt.Sprintf("flatten: not an interface value: %T for %s", v, t))
		}
		return []*T{i.Tag, i.Ref}
	case *types.Slice:
		s, ok := v.(*SliceV)
		if !ok {
			panic(fmt.Sprintf("flatten: not a slice value: %T", v))
		}
		return []*T{s.Base, s.Off, s.Len, s.Cap}
	case *types.Struct:
		if isOpaqueStruct(t) {
			return []*T{x.scalar(v)}
		}
		sv, ok := v.(*StructV)
		if !ok {
			panic(fmt.Sprintf("flatten: not a struct value: %T for %s", v, t))
		}
		var out []*T
		for i := 0; i < u.NumFields(); i++ {
			out = append(out, x.flatten(sv.F[i], u.Field(i).Type())...)
		}
		// ghost leaves
		n := len(x.leaves(t)) - len(out)
		for i := 0; i < n; i++ {
			g := sv.F[u.NumFields()+i]
			out = append(out, x.scalar(g))
		}
		return out
	case *types.Tuple:
		tv := v.(TupleV)
		var out []*T
		for i := 0; i < u.Len(); i++ {
			out = append(out, x.flatten(tv[i], u.At(i).Type())...)
		}
		return out
	}
	return []*T{x.scalar(v)}
}

func (x *Exec) scalar(v Val) *T {
	switch s := v.(type) {
	case *T:
		return s
	case *PtrV:
		return x.ptrRef(v)
	}
	panic(fmt.Sprintf("scalar: unexpected value %T %v", v, v))
}

func (x *Exec) ptrRef(v Val) *T {
	switch p := v.(type) {
	case *T:
		return p
	case *PtrV:
		if p.Kind == PObj {
			return p.Ref
		}
		// interior pointers escape: represent by an opaque fresh ref (loses precision)
		x.warn("interior pointer escapes to the heap/SMT: %v", p.Kind)
		return Fresh("iptr", SInt)
	}
	panic(fmt.Sprintf("ptrRef: unexpected %T", v))
}

// unflatten builds a value of type t from leaf terms; returns the remaining terms.
func (x *Exec) unflatten(t types.Type, ts []*T) (Val, []*T) {
	switch u := t.Underlying().(type) {
	case *types.Basic, *types.Map, *types.Chan:
		return ts[0], ts[1:]
	case *types.Pointer:
		return &PtrV{Kind: PObj, Ref: ts[0], Typ: u.Elem()}, ts[1:]
	case *types.Signature:
		return &FuncV{Fn: ts[0], Env: ts[1]}, ts[2:]
	case *types.Interface:
		return &IfaceV{Tag: ts[0], Ref: ts[1]}, ts[2:]
	case *types.Slice:
		return &SliceV{Base: ts[0], Off: ts[1], Len: ts[2], Cap: ts[3]}, ts[4:]
	case *types.Struct:
		if isOpaqueStruct(t) {
			return ts[0], ts[1:]
		}
		sv := &StructV{Typ: t}
		for i := 0; i < u.NumFields(); i++ {
			var f Val
			f, ts = x.unflatten(u.Field(i).Type(), ts)
			sv.F = append(sv.F, f)
		}
		if n, ok := t.(*types.Named); ok {
			for range x.ghostFields[n.Obj().Pkg().Name()+"."+n.Obj().Name()] {
				sv.F = append(sv.F, ts[0])
				ts = ts[1:]
			}
		}
		return sv, ts
	case *types.Tuple:
		var tv TupleV
		for i := 0; i < u.Len(); i++ {
			var f Val
			f, ts = x.unflatten(u.At(i).Type(), ts)
			tv = append(tv, f)
		}
		return tv, ts
	}
	return ts[0], ts[1:]
}

func zeroOfSort(s Sort) *T {
	switch s {
	case SInt:
		return IntC(0)
	case SBool:
		return TFalse
	case SStr:
		return StrLit("")
	case SF64:
		return Sym("fzero", SF64)
	}
	panic("zeroOfSort " + string(s))
}

func (x *Exec) zero(t types.Type) Val {
	ls := x.leaves(t)
	ts := make([]*T, len(ls))
	for i, l := range ls {
		ts[i] = zeroOfSort(l.sort)
	}
	v, _ := x.unflatten(t, ts)
	return v
}

// freshVal creates an unconstrained value of type t plus its type facts.
func (x *Exec) freshVal(st *State, t types.Type, prefix string) Val {
	ls := x.leaves(t)
	ts := make([]*T, len(ls))
	for i, l := range ls {
		ts[i] = Fresh(prefix+l.path, l.sort)
	}
	v, _ := x.unflatten(t, ts)
	x.assumeTypeFacts(st, v, t)
	return v
}

// namedVal creates a value whose leaves are named symbols (for parameters).
func (x *Exec) namedVal(st *State, t types.Type, name string) Val {
	ls := x.leaves(t)
	ts := make([]*T, len(ls))
	for i, l := range ls {
		ts[i] = Sym("p!"+name+l.path, l.sort)
	}
	v, _ := x.unflatten(t, ts)
	x.assumeTypeFacts(st, v, t)
	return v
}

func intRange(b *types.Basic) (lo, hi *T) {
	switch b.Kind() {
	case types.Uint8:
		return IntC(0), IntC(255)
	case types.Uint16:
		return IntC(0), IntC(65535)
	case types.Uint32:
		return IntC(0), IntC(4294967295)
	case types.Int8:
		return IntC(-128), IntC(127)
	case types.Int16:
		return IntC(-32768), IntC(32767)
	case types.Int32:
		return IntC(-2147483648), IntC(2147483647)
	case types.Uint, types.Uint64, types.Uintptr:
		return IntC(0), nil
	}
	return nil, nil
}

// assumeTypeFacts adds the facts every well-typed value satisfies: integer ranges,
// references below the allocation watermark, slice header sanity.
func (x *Exec) assumeTypeFacts(st *State, v Val, t types.Type) {
	switch u := t.Underlying().(type) {
	case *types.Basic:
		if u.Info()&types.IsInteger != 0 {
			lo, hi := intRange(u)
			tv := v.(*T)
			if tv.IsInt() {
				return
			}
			if lo != nil {
				st.assume(Ge(tv, lo))
			}
			if hi != nil {
				st.assume(Le(tv, hi))
			}
			if lo == nil && hi == nil && x.curWrap64 && (u.Kind() == types.Int64 || u.Kind() == types.Int) {
				st.assume(Ge(tv, IntC(-9223372036854775808)))
				st.assume(Le(tv, IntB(maxInt64)))
			}
		}
	case *types.Pointer:
		r := x.ptrRef(v)
		st.assume(And(Ge(r, IntC(0)), Lt(r, st.alloc)))
	case *types.Map, *types.Chan:
		r := v.(*T)
		st.assume(And(Ge(r, IntC(0)), Lt(r, st.alloc)))
	case *types.Interface:
		i := v.(*IfaceV)
		st.assume(And(Ge(i.Tag, IntC(0)), Ge(i.Ref, IntC(0)), Lt(i.Ref, st.alloc)))
		st.assume(Implies(Eq(i.Tag, IntC(0)), Eq(i.Ref, IntC(0))))
		// pointer-shaped dynamic types that are known to the program are never nil-boxed
		// (no: a typed nil pointer may be boxed; we do not assume it)
		if x.nnBoxed[typeKey(t)] {
			// declared: this interface never boxes a nil pointer (asserted where a pointer is boxed)
			st.assume(Implies(Ne(i.Tag, IntC(0)), Ne(i.Ref, IntC(0))))
		}
		if impl := x.implementers(t); impl != nil && inModuleType(t) {
			var alts []*T
			alts = append(alts, Eq(i.Tag, IntC(0)))
			for _, id := range impl {
				alts = append(alts, Eq(i.Tag, IntC(int64(id))))
			}
			st.assume(Or(alts...))
		}
	case *types.Slice:
		s := v.(*SliceV)
		st.assume(And(Ge(s.Base, IntC(0)), Lt(s.Base, st.alloc), Ge(s.Off, IntC(0)), Ge(s.Len, IntC(0)), Le(s.Len, s.Cap)))
		st.assume(Implies(Eq(s.Base, IntC(0)), And(Eq(s.Len, IntC(0)), Eq(s.Cap, IntC(0)))))
		// a slice of non-empty elements cannot be larger than the address space the runtime
		// hands out (maxAlloc = 2^48 bytes on 64-bit): what keeps len arithmetic from wrapping
		if _, isStruct := u.Elem().Underlying().(*types.Struct); !isStruct || u.Elem().Underlying().(*types.Struct).NumFields() > 0 {
			st.assume(Le(s.Cap, IntC(1<<48)))
		}
	case *types.Signature:
		f := v.(*FuncV)
		st.assume(And(Ge(f.Fn, IntC(0)), Ge(f.Env, IntC(0)), Lt(f.Env, st.alloc)))
	case *types.Struct:
		if isOpaqueStruct(t) {
			return
		}
		sv := v.(*StructV)
		for i := 0; i < u.NumFields(); i++ {
			x.assumeTypeFacts(st, sv.F[i], u.Field(i).Type())
		}
	case *types.Tuple:
		tv := v.(TupleV)
		for i := 0; i < u.Len(); i++ {
			x.assumeTypeFacts(st, tv[i], u.At(i).Type())
		}
	}
}

// ---- heap ----

func structName(t types.Type) string {
	if n, ok := t.(*types.Named); ok {
		if n.Obj().Pkg() != nil {
			return n.Obj().Pkg().Name() + "." + n.Obj().Name()
		}
		return n.Obj().Name()
	}
	return typeKey(t)
}

func (st *State) heapArr(key string, s Sort) *T {
	if a, ok := st.heap[key]; ok {
		return a
	}
	var a *T
	last := 0
	for i, ev := range st.events {
		if ev == "*" || strings.HasPrefix(key, ev) {
			last = i + 1
		}
	}
	if last == 0 {
		a = Sym("H0!"+key, s)
	} else {
		a = Sym(fmt.Sprintf("He%d!%s", last, key), s)
	}
	st.heap[key] = a
	return a
}

func (st *State) setHeap(key string, val *T) {
	// name every heap version to keep terms small
	n := Fresh("H!"+key, val.Sort)
	st.assumeDef(Eq(n, val))
	st.heap[key] = n
}

func fieldKey(owner types.Type, path string) string { return "F:" + structName(owner) + "." + path }
func cellKey(t types.Type, path string) string      { return "C:" + typeKey(t) + pathSuffix(path) }
func elemKey(t types.Type, path string) string      { return "E:" + typeKey(t) + pathSuffix(path) }
func mapDomKey(t types.Type) string                 { return "MD:" + typeKey(t) }
func mapValKey(t types.Type, path string) string    { return "MV:" + typeKey(t) + pathSuffix(path) }
func globalKey(g *ssa.Global, path string) string {
	return "G:" + g.Pkg.Pkg.Name() + "." + g.Name() + pathSuffix(path)
}

func pathSuffix(p string) string {
	if p == "" {
		return ""
	}
	if strings.HasPrefix(p, "#") {
		return p
	}
	return "." + p
}

// loadPtr reads the value a pointer designates.
func (x *Exec) loadPtr(st *State, p *PtrV) Val {
	t := p.Typ
	ls := x.leaves(t)
	ts := make([]*T, len(ls))
	switch p.Kind {
	case PCell:
		v := st.cellGet(p.Cell)
		if p.Path == "" {
			return v
		}
		if _, ok := v.(*StructV); !ok {
			return x.freshVal(st, p.Typ, "opq")
		}
		return x.structPath(v, p.Cell.typ, p.Path)
	case PObj:
		if _, isStruct := t.Underlying().(*types.Struct); isStruct && !isOpaqueStruct(t) {
			for i, l := range ls {
				ts[i] = Select(st.heapArr(fieldKey(t, l.path), ArrSort(SInt, l.sort)), p.Ref)
			}
		} else {
			for i, l := range ls {
				ts[i] = Select(st.heapArr(cellKey(t, l.path), ArrSort(SInt, l.sort)), p.Ref)
			}
		}
	case PField:
		for i, l := range ls {
			ts[i] = Select(st.heapArr(fieldKey(p.Owner, joinPath(p.Path, l.path)), ArrSort(SInt, l.sort)), p.Ref)
		}
	case PElem:
		for i, l := range ls {
			arr := st.heapArr(elemKey(p.ElemT, joinPath(p.Path, l.path)), ArrSort(SInt, ArrSort(SInt, l.sort)))
			ts[i] = Select(Select(arr, p.Base), p.Idx)
		}
	case PGlobal:
		for i, l := range ls {
			ts[i] = st.heapArr(globalKey(p.Global, joinPath(p.Path, l.path)), l.sort)
		}
	}
	v, _ := x.unflatten(t, ts)
	x.assumeLoaded(st, v, t)
	// declared non-nil invariants (assumed on load, asserted on store)
	switch p.Kind {
	case PElem:
		if p.Path == "" && x.nnElems[typeKey(p.ElemT)] {
			st.assume(nonNilVal(v))
		}
	case PField:
		if x.nnFields[structName(p.Owner)+"."+p.Path] {
			st.assume(nonNilVal(v))
		}
	case PObj:
		if stt, ok := t.Underlying().(*types.Struct); ok && !isOpaqueStruct(t) {
			if sv, ok := v.(*StructV); ok {
				for i := 0; i < stt.NumFields(); i++ {
					if x.nnFields[structName(t)+"."+stt.Field(i).Name()] {
						st.assume(nonNilVal(sv.F[i]))
					}
				}
			}
		}
	}
	return v
}

// assumeLoaded: values read from the heap are well typed (refs below the watermark...).
func (x *Exec) assumeLoaded(st *State, v Val, t types.Type) {
	x.assumeTypeFacts(st, v, t)
}

func (x *Exec) storePtr(st *State, p *PtrV, v Val) {
	t := p.Typ
	switch p.Kind {
	case PCell:
		if p.Path == "" {
			st.cellSet(p.Cell, v)
		} else {
			st.cellSet(p.Cell, x.structPathSet(st.cellGet(p.Cell), p.Cell.typ, p.Path, v))
		}
		return
	}
	ls := x.leaves(t)
	ts := x.flatten(v, t)
	for i, l := range ls {
		switch p.Kind {
		case PObj:
			var key string
			if _, isStruct := t.Underlying().(*types.Struct); isStruct && !isOpaqueStruct(t) {
				key = fieldKey(t, l.path)
			} else {
				key = cellKey(t, l.path)
			}
			arr := st.heapArr(key, ArrSort(SInt, l.sort))
			st.setHeap(key, Store(arr, p.Ref, ts[i]))
		case PField:
			key := fieldKey(p.Owner, joinPath(p.Path, l.path))
			arr := st.heapArr(key, ArrSort(SInt, l.sort))
			st.setHeap(key, Store(arr, p.Ref, ts[i]))
		case PElem:
			key := elemKey(p.ElemT, joinPath(p.Path, l.path))
			arr := st.heapArr(key, ArrSort(SInt, ArrSort(SInt, l.sort)))
			st.setHeap(key, Store(arr, p.Base, Store(Select(arr, p.Base), p.Idx, ts[i])))
		case PGlobal:
			key := globalKey(p.Global, joinPath(p.Path, l.path))
			st.heapArr(key, l.sort)
			st.setHeap(key, ts[i])
		}
	}
}

// structPath selects the sub-value at a dotted field path of a struct value.
func (x *Exec) structPath(v Val, t types.Type, path string) Val {
	if path == "" {
		return v
	}
	parts := strings.SplitN(path, ".", 2)
	st := t.Underlying().(*types.Struct)
	sv := v.(*StructV)
	for i := 0; i < st.NumFields(); i++ {
		if st.Field(i).Name() == parts[0] {
			if len(parts) == 1 {
				return sv.F[i]
			}
			return x.structPath(sv.F[i], st.Field(i).Type(), parts[1])
		}
	}
	panic("structPath: no field " + path + " in " + t.String())
}

func (x *Exec) structPathSet(v Val, t types.Type, path string, nv Val) Val {
	if path == "" {
		return nv
	}
	parts := strings.SplitN(path, ".", 2)
	st := t.Underlying().(*types.Struct)
	sv := v.(*StructV)
	out := &StructV{Typ: sv.Typ, F: append([]Val{}, sv.F...)}
	for i := 0; i < st.NumFields(); i++ {
		if st.Field(i).Name() == parts[0] {
			if len(parts) == 1 {
				out.F[i] = nv
			} else {
				out.F[i] = x.structPathSet(sv.F[i], st.Field(i).Type(), parts[1], nv)
			}
			return out
		}
	}
	panic("structPathSet: no field " + path)
}

func fieldType(t types.Type, path string) types.Type {
	if path == "" {
		return t
	}
	parts := strings.SplitN(path, ".", 2)
	st := t.Underlying().(*types.Struct)
	for i := 0; i < st.NumFields(); i++ {
		if st.Field(i).Name() == parts[0] {
			if len(parts) == 1 {
				return st.Field(i).Type()
			}
			return fieldType(st.Field(i).Type(), parts[1])
		}
	}
	return nil
}

// valEq builds the equality of two values of type t (leafwise).
func (x *Exec) valEq(a, b Val, t types.Type) *T {
	as := x.flatten(a, t)
	bs := x.flatten(b, t)
	var cs []*T
	for i := range as {
		cs = append(cs, Eq(as[i], bs[i]))
	}
	return And(cs...)
}

func (x *Exec) valIte(c *T, a, b Val, t types.Type) Val {
	as := x.flatten(a, t)
	bs := x.flatten(b, t)
	ts := make([]*T, len(as))
	for i := range as {
		ts[i] = Ite(c, as[i], bs[i])
	}
	v, _ := x.unflatten(t, ts)
	return v
}

func inModuleType(t types.Type) bool {
	n, ok := t.(*types.Named)
	return ok && n.Obj().Pkg() != nil && strings.HasPrefix(n.Obj().Pkg().Path(), modulePath)
}
