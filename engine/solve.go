package main

// SMT-LIB emission and solver racing (z3-new first, then z3 4.8 and cvc5).

import (
	"bytes"
	"context"
	"fmt"
	"os"
	"os/exec"
	"path/filepath"
	"regexp"
	"strings"
	"sync"
	"time"
)

// string literals: symbol name -> bytes
var litTable = map[string]string{}
var litMu sync.Mutex

func StrLit(s string) *T {
	name := "lit!" + fmt.Sprintf("%x", s)
	if len(s) > 24 {
		name = fmt.Sprintf("lit!L%d!%x", len(s), hash32(s))
	}
	t := Sym(name, SStr)
	litTable[t.Name] = s
	return t
}

func hash32(s string) uint32 {
	var h uint32 = 2166136261
	for i := 0; i < len(s); i++ {
		h ^= uint32(s[i])
		h *= 16777619
	}
	return h
}

func IsStrLit(t *T) (string, bool) {
	if t.Op == "sym" {
		s, ok := litTable[t.Name]
		return s, ok
	}
	return "", false
}

const prelude = `(set-option :produce-models true)
(set-logic ALL)
(declare-sort Str 0)
(declare-sort F64 0)
(declare-fun slen (Str) Int)
(declare-fun sat (Str Int) Int)
(define-fun d!tdiv ((a Int) (b Int)) Int (ite (>= a 0) (div a b) (- (div (- a) b))))
(define-fun d!trem ((a Int) (b Int)) Int (- a (* b (ite (>= a 0) (div a b) (- (div (- a) b))))))
(define-fun d!wrap64 ((a Int)) Int (- (mod (+ a 9223372036854775808) 18446744073709551616) 9223372036854775808))
`

type Query struct {
	Text   string   // pre-rendered SMT-LIB (rendered single-threaded: terms cache their text)
	Name   string   // obligation instance name
	Facts  []*T     // assumptions
	Goal   *T       // to prove (negated in the query); nil for cover queries
	Cover  bool     // expected sat
	Vals   []*T     // terms whose model values are wanted on sat
	Axioms []string // extra raw SMT assertions (quantified axioms marked auto)
}

// groundStringFacts adds length/byte facts for every string term in the query.
func groundStringFacts(terms []*T) []*T {
	var extra []*T
	done := map[string]bool{}
	work := terms
	for round := 0; round < 4 && len(work) > 0; round++ {
		c := newCollector()
		for _, t := range work {
			c.walk(t)
		}
		var next []*T
		add := func(f *T) {
			k := f.String()
			if !done[k] {
				done[k] = true
				extra = append(extra, f)
				next = append(next, f)
			}
		}
		for _, k := range sortedKeys(c.slens) {
			s := c.slens[k]
			add(Ge(Slen(s), IntC(0)))
			add(Le(Slen(s), IntC(1<<48)))
			if lit, ok := IsStrLit(s); ok {
				add(Eq(Slen(s), IntC(int64(len(lit)))))
				if len(lit) <= 64 {
					for i := 0; i < len(lit); i++ {
						add(Eq(Sat(s, IntC(int64(i))), IntC(int64(lit[i]))))
					}
				}
			}
			if s.Op == "app" {
				switch s.Name {
				case "f!sconcat":
					add(Eq(Slen(s), Add(Slen(s.Args[0]), Slen(s.Args[1]))))
				case "f!ssub":
					add(Implies(And(Le(IntC(0), s.Args[1]), Le(s.Args[1], s.Args[2]), Le(s.Args[2], Slen(s.Args[0]))),
						Eq(Slen(s), Sub(s.Args[2], s.Args[1]))))
				case "f!sbyte":
					add(Eq(Slen(s), IntC(1)))
					add(Eq(Sat(s, IntC(0)), s.Args[0]))
				}
			}
		}
		for _, k := range sortedKeys(c.eqlits) {
			t := c.eqlits[k]
			xs, lit := t.Args[0], t.Args[1]
			if ls, ok := IsStrLit(lit); ok {
				add(Eq(t, bytewiseEq(xs, ls)))
				add(Implies(t, Eq(xs, lit)))
			}
		}
		for _, k := range sortedKeys(c.sats) {
			t := c.sats[k]
			s, i := t.Args[0], t.Args[1]
			add(And(Le(IntC(0), t), Le(t, IntC(255))))
			if s.Op == "app" {
				switch s.Name {
				case "f!sconcat":
					a, b := s.Args[0], s.Args[1]
					add(Implies(And(Le(IntC(0), i), Lt(i, Slen(s))),
						Eq(t, Ite(Lt(i, Slen(a)), Sat(a, i), Sat(b, Sub(i, Slen(a)))))))
				case "f!ssub":
					add(Implies(And(Le(IntC(0), i), Lt(i, Slen(s)), Le(IntC(0), s.Args[1]), Le(s.Args[2], Slen(s.Args[0]))),
						Eq(t, Sat(s.Args[0], Add(s.Args[1], i)))))
				}
			}
		}
		work = next
	}
	return extra
}

func (q *Query) SMT() string {
	var b bytes.Buffer
	b.WriteString(prelude)
	all := append([]*T{}, q.Facts...)
	if q.Goal != nil {
		all = append(all, q.Goal)
	}
	all = append(all, q.Vals...)
	extra := groundStringFacts(all)
	c := newCollector()
	for _, t := range all {
		c.walk(t)
	}
	for _, t := range extra {
		c.walk(t)
	}
	for _, k := range sortedKeys(c.syms) {
		fmt.Fprintf(&b, "(declare-const %s %s)\n", k, c.syms[k])
	}
	for _, k := range sortedKeys(c.ufs) {
		sig := ufTable[k]
		var as []string
		for _, a := range sig.args {
			as = append(as, string(a))
		}
		fmt.Fprintf(&b, "(declare-fun %s (%s) %s)\n", k, strings.Join(as, " "), sig.ret)
	}
	if (len(c.bound) > 0 || c.hasSkolem()) && c.ufs["f!ssub"] {
		b.WriteString("(assert (forall ((s Str) (a Int) (b Int) (i Int)) (! (=> (and (<= 0 a) (<= a b) (<= b (slen s)) (<= 0 i) (< i (- b a))) (= (sat (f!ssub s a b) i) (sat s (+ a i)))) :pattern ((sat (f!ssub s a b) i)))))\n")
	}
	if (len(c.bound) > 0 || c.hasSkolem()) && c.ufs["f!sconcat"] {
		b.WriteString("(assert (forall ((s Str) (t Str) (i Int)) (! (=> (and (<= 0 i) (< i (+ (slen s) (slen t)))) (= (sat (f!sconcat s t) i) (ite (< i (slen s)) (sat s i) (sat t (- i (slen s)))))) :pattern ((sat (f!sconcat s t) i)))))\n")
	}
	for _, a := range q.Axioms {
		b.WriteString(a)
		b.WriteString("\n")
	}
	for _, f := range extra {
		fmt.Fprintf(&b, "(assert %s)\n", f)
	}
	for _, f := range q.Facts {
		fmt.Fprintf(&b, "(assert %s)\n", f)
	}
	if q.Goal != nil {
		fmt.Fprintf(&b, "(assert (not %s))\n", q.Goal)
	}
	b.WriteString("(check-sat)\n")
	if len(q.Vals) > 0 {
		b.WriteString("(get-value (")
		for _, v := range q.Vals {
			b.WriteString(v.String())
			b.WriteString(" ")
		}
		b.WriteString("))\n")
	}
	return b.String()
}

type SolveResult struct {
	Status string // unsat, sat, unknown, timeout, error
	Solver string
	Ms     int64
	Model  map[string]string
	Raw    string
}

type solverSpec struct {
	name string
	argv func(file string, timeoutS int, seed int) []string
}

var solvers = []solverSpec{
	{"z3-new", func(f string, t int, seed int) []string {
		return []string{"z3-new", fmt.Sprintf("-T:%d", t), fmt.Sprintf("smt.random_seed=%d", seed), f}
	}},
	{"z3", func(f string, t int, seed int) []string {
		return []string{"z3", fmt.Sprintf("-T:%d", t), fmt.Sprintf("smt.random_seed=%d", seed), f}
	}},
	{"cvc5", func(f string, t int, seed int) []string {
		return []string{"cvc5", fmt.Sprintf("--tlimit=%d", t*1000), fmt.Sprintf("--seed=%d", seed), f}
	}},
}

var valueRe = regexp.MustCompile(`^\(+\s*`)

func runSolver(sp solverSpec, file string, timeoutS int, seed int) SolveResult {
	start := time.Now()
	ctx, cancel := context.WithTimeout(context.Background(), time.Duration(timeoutS+2)*time.Second)
	defer cancel()
	argv := sp.argv(file, timeoutS, seed)
	cmd := exec.CommandContext(ctx, argv[0], argv[1:]...)
	out, _ := cmd.CombinedOutput()
	res := SolveResult{Solver: sp.name, Ms: time.Since(start).Milliseconds(), Raw: string(out)}
	first := strings.TrimSpace(strings.SplitN(string(out), "\n", 2)[0])
	switch {
	case first == "unsat":
		res.Status = "unsat"
	case first == "sat":
		res.Status = "sat"
	case first == "unknown":
		res.Status = "unknown"
	case strings.Contains(first, "timeout") || ctx.Err() != nil:
		res.Status = "timeout"
	default:
		res.Status = "error"
	}
	return res
}

// Solve runs the query: z3-new first; on unknown/timeout/error the two others in parallel.
// With cross=true every solver is run and any disagreement is reported as "disagree".
func Solve(q *Query, dir string, timeoutS int, seed int, cross bool) SolveResult {
	return solve(q, dir, timeoutS, seed, cross, false)
}

func solve(q *Query, dir string, timeoutS int, seed int, cross bool, coverOnly bool) SolveResult {
	file := filepath.Join(dir, smtFileName(q.Name)+".smt2")
	text := q.Text
	if text == "" {
		text = q.SMT()
	}
	if err := os.WriteFile(file, []byte(text), 0o644); err != nil {
		return SolveResult{Status: "error", Raw: err.Error()}
	}
	if coverOnly {
		// covers only look for a contradiction: one solver, short limit; anything but unsat
		// means the assumptions were not refuted
		t := timeoutS
		if t > 4 {
			t = 4
		}
		return runSolver(solvers[0], file, t, seed)
	}
	if !cross {
		r := runSolver(solvers[0], file, timeoutS, seed)
		if r.Status == "unsat" || r.Status == "sat" {
			r.Model = parseModel(q, r.Raw)
			return r
		}
		ch := make(chan SolveResult, 2)
		for _, sp := range solvers[1:] {
			go func(sp solverSpec) { ch <- runSolver(sp, file, timeoutS, seed) }(sp)
		}
		best := r
		for i := 0; i < 2; i++ {
			x := <-ch
			if x.Status == "unsat" || x.Status == "sat" {
				x.Ms += r.Ms
				x.Model = parseModel(q, x.Raw)
				best = x
				// do not wait for the other one
				return best
			}
		}
		// every solver gave up: unsat does not depend on the seed, so try other seeds of the
		// first solver before calling the obligation undecided (seed-sensitive instantiation)
		ch2 := make(chan SolveResult, 3)
		for k := 1; k <= 3; k++ {
			go func(k int) { ch2 <- runSolver(solvers[0], file, timeoutS, seed+k*7919) }(k)
		}
		for i := 0; i < 3; i++ {
			x := <-ch2
			if x.Status == "unsat" || x.Status == "sat" {
				x.Ms += r.Ms
				x.Solver += ":reseeded"
				x.Model = parseModel(q, x.Raw)
				return x
			}
		}
		return best
	}
	var results []SolveResult
	ch := make(chan SolveResult, len(solvers))
	for _, sp := range solvers {
		go func(sp solverSpec) { ch <- runSolver(sp, file, timeoutS, seed) }(sp)
	}
	for range solvers {
		results = append(results, <-ch)
	}
	var decided *SolveResult
	names := []string{}
	for i := range results {
		r := &results[i]
		if r.Status == "unsat" || r.Status == "sat" {
			if decided != nil && decided.Status != r.Status {
				return SolveResult{Status: "disagree", Solver: decided.Solver + "/" + r.Solver, Raw: decided.Raw + "\n--\n" + r.Raw}
			}
			if decided == nil {
				decided = r
			}
			names = append(names, r.Solver)
		}
	}
	if decided == nil {
		return results[0]
	}
	out := *decided
	out.Solver = strings.Join(names, "+")
	out.Model = parseModel(q, out.Raw)
	return out
}

func smtFileName(name string) string {
	var b strings.Builder
	for _, c := range name {
		if c >= 'a' && c <= 'z' || c >= 'A' && c <= 'Z' || c >= '0' && c <= '9' || c == '.' || c == '-' || c == '_' {
			b.WriteRune(c)
		} else {
			b.WriteRune('_')
		}
	}
	s := b.String()
	if len(s) > 180 {
		s = s[:140] + fmt.Sprintf("_%x", hash32(s))
	}
	return s
}

// parseModel extracts (term value) pairs of a get-value answer.
func parseModel(q *Query, raw string) map[string]string {
	m := map[string]string{}
	if len(q.Vals) == 0 {
		return m
	}
	idx := strings.Index(raw, "\n")
	if idx < 0 {
		return m
	}
	body := strings.TrimSpace(raw[idx+1:])
	// body looks like ((t1 v1) (t2 v2) ...)
	toks := sexpTokens(body)
	pos := 0
	var parse func() interface{}
	parse = func() interface{} {
		if pos >= len(toks) {
			return nil
		}
		t := toks[pos]
		pos++
		if t == "(" {
			var l []interface{}
			for pos < len(toks) && toks[pos] != ")" {
				l = append(l, parse())
			}
			pos++
			return l
		}
		return t
	}
	top, ok := parse().([]interface{})
	if !ok {
		return m
	}
	for _, e := range top {
		pair, ok := e.([]interface{})
		if !ok || len(pair) != 2 {
			continue
		}
		m[sexpString(pair[0])] = sexpString(pair[1])
	}
	return m
}

func sexpTokens(s string) []string {
	var toks []string
	i := 0
	for i < len(s) {
		c := s[i]
		switch {
		case c == '(' || c == ')':
			toks = append(toks, string(c))
			i++
		case c == ' ' || c == '\n' || c == '\t' || c == '\r':
			i++
		case c == '"':
			j := i + 1
			for j < len(s) && s[j] != '"' {
				j++
			}
			toks = append(toks, s[i:min(j+1, len(s))])
			i = j + 1
		default:
			j := i
			for j < len(s) && !strings.ContainsRune("() \n\t\r", rune(s[j])) {
				j++
			}
			toks = append(toks, s[i:j])
			i = j
		}
	}
	return toks
}

func sexpString(e interface{}) string {
	switch v := e.(type) {
	case string:
		return v
	case []interface{}:
		parts := make([]string, len(v))
		for i, x := range v {
			parts[i] = sexpString(x)
		}
		return "(" + strings.Join(parts, " ") + ")"
	}
	return ""
}
