package main

// Reader for the contract files /repo/<pkg>/zz_contracts_verif.go (build tag verif,
// comment-only). Contract text is Gobra-style: every line starts with "//@".

import (
	"fmt"
	"os"
	"path/filepath"
	"regexp"
	"strconv"
	"strings"
)

type Clause struct {
	Label string
	Expr  string
	Where string // file:line
}

type LoopSpec struct {
	Invariants []Clause
	Decreases  *Clause
	Uses       []Clause
	Cut        bool
	ByContract bool // the function's postconditions pin the result whatever the iteration order
	BackAsserts []Clause // checked on every back-edge only ("the loop continues only if ...")
	Unroll     int // >0: unroll instead of cutting (complete only if the bound is provably not exceeded)
}

type GhostSet struct {
	LHS, RHS string
	Where    string
}

type Param struct {
	Name, Type string
}

type FuncContract struct {
	Key       string // pkg.Recv.name or pkg.name
	Pkg       string
	RecvName  string
	Requires  []Clause
	Ensures   []Clause
	Goals     []Clause
	Trusted   []Clause // ensures assumed at call sites but NOT proved of the body (listed as assumptions)
	Modifies  []string
	HasMod    bool
	TrustedMod []string // frame assumed by callers instead of Modifies (listed as an assumption)
	HasTrustedMod bool
	Uses      []Clause
	UsesPost  []Clause
	Loops     map[int]*LoopSpec
	Calls     map[string][]Clause // "callee#k" -> asserts
	CallUses  map[string][]Clause // "callee#k" -> use clauses evaluated after the call
	CallBinds map[string]string   // "callee#k" -> contract variable bound to the call's result
	Rets      map[string][]Clause // "ret#k" -> assertions checked at that return only
	Ghost     []GhostSet
	Inline    bool
	Wrap64    bool
	TrustedAll bool
	RecDec    *Clause
	Where     string
	Params    []string // for family contracts: parameter names (this first)
	IsFamily  bool
	FamIface  string // "object.Object"
	FamMethod string
	NoSafety  bool
	NoDefault bool
	Pure      bool // result is a function of arguments and heap; no allocation visible
}

// StoreInv: an invariant on the value stored into a field of an already published object
type StoreInv struct {
	Pkg, Field, Expr, Where string
}

type SpecFunc struct {
	Name   string
	Pkg    string
	Params []Param
	Ret    string
	Body   string
	Where  string
	Reads  []string // heap parts an uninterpreted spec depends on (passed as extra arguments)
}

type Axiom struct {
	Name   string
	Pkg    string
	Params []Param
	Body   string
	Where  string
}

type NonNilDecl struct {
	Pkg, Kind, What, Where string // Kind: elems | values | field
}

type GhostField struct {
	Pkg, Struct, Field, Type string
}

type Contracts struct {
	Funcs    map[string]*FuncContract
	Families map[string]*FuncContract // "object.Object.Is"
	Specs    map[string]*SpecFunc     // name (unqualified; specs are global)
	Axioms   map[string]*Axiom
	Ghosts   []GhostField
	Defaults map[string]*FuncContract // "parser.Parser" -> default contract for all methods
	Files    []string
	ModSets  map[string]string // "pkg.NAME" -> item list
	NonNil   []NonNilDecl
	GlobalInvs []Clause // Label = package
	StoreInvs  map[string]*StoreInv // "ast.ReserveStmt.Insert"
	AllocBound int64 // declared assumption: allocations up to this many bytes succeed
}

var reFunc = regexp.MustCompile(`^func\s+(?:\(\s*(\w+)\s+\*?(\w+)\s*\)\s*)?([\w$]+)\s*$`)
var reSpec = regexp.MustCompile(`^(spec|pred)\s+(\w+)\s*\(([^)]*)\)\s*([^=]*?)\s*(?:=\s*(.*))?$`)
var reReads = regexp.MustCompile(`\s+reads\s+(.*)$`)
var reAxiom = regexp.MustCompile(`^axiom\s+(\w+)\s*\(([^)]*)\)\s*:\s*(.*)$`)
var reGhostField = regexp.MustCompile(`^ghost\s+field\s+(\w+)\.(\w+)\s+(\S+)\s*$`)
var reFamily = regexp.MustCompile(`^family\s+(\w+)\.(\w+)\.(\w+)\s*\(([^)]*)\)\s*$`)
var reDefault = regexp.MustCompile(`^default\s+\(\s*(\w+)\s+\*?(\w+)\s*\)\s*$`)
var reLabel = regexp.MustCompile(`^([A-Za-z][\w.\-]*)\s*:\s*(.*)$`)
var reLoop = regexp.MustCompile(`^loop\s+(\d+)\s*:?\s*(invariant|decreases|use|unroll|continues-only-if|deterministic-by-contract)\s*(.*)$`)
var reRet = regexp.MustCompile(`^return\s+(\d+)\s*:?\s*assert\s+(.*)$`)
var reCall = regexp.MustCompile(`^call\s+([\w.]+#(?:\d+|\*))\s*:?\s*(assert|use|bind)\s+(.*)$`)

func parseParams(s string) []Param {
	var ps []Param
	s = strings.TrimSpace(s)
	if s == "" {
		return nil
	}
	for _, part := range strings.Split(s, ",") {
		f := strings.Fields(strings.TrimSpace(part))
		if len(f) == 1 {
			ps = append(ps, Param{Name: f[0]})
		} else if len(f) >= 2 {
			ps = append(ps, Param{Name: f[0], Type: strings.Join(f[1:], " ")})
		}
	}
	// "a, b int" style: fill missing types from the right
	for i := len(ps) - 2; i >= 0; i-- {
		if ps[i].Type == "" {
			ps[i].Type = ps[i+1].Type
		}
	}
	return ps
}

func LoadContracts(repo string) (*Contracts, error) {
	cs := &Contracts{Funcs: map[string]*FuncContract{}, Families: map[string]*FuncContract{}, Specs: map[string]*SpecFunc{}, Axioms: map[string]*Axiom{}, Defaults: map[string]*FuncContract{}, ModSets: map[string]string{}}
	var files []string
	filepath.Walk(repo, func(p string, info os.FileInfo, err error) error {
		if err == nil && !info.IsDir() && strings.HasSuffix(p, "_contracts_verif.go") {
			files = append(files, p)
		}
		return nil
	})
	for _, f := range files {
		if err := cs.loadFile(repo, f); err != nil {
			return nil, err
		}
	}
	cs.Files = files
	return cs, nil
}

func (cs *Contracts) loadFile(repo, file string) error {
	data, err := os.ReadFile(file)
	if err != nil {
		return err
	}
	rel, _ := filepath.Rel(repo, file)
	pkg := "textwire"
	lines := strings.Split(string(data), "\n")
	for _, l := range lines {
		if strings.HasPrefix(l, "package ") {
			pkg = strings.TrimSpace(strings.TrimPrefix(l, "package "))
		}
	}
	var cur *FuncContract
	// last clause appender for continuation lines
	var appendTo func(string)
	for i, raw := range lines {
		l := strings.TrimSpace(raw)
		if !strings.HasPrefix(l, "//@") {
			continue
		}
		l = strings.TrimSpace(strings.TrimPrefix(l, "//@"))
		if idx := strings.Index(l, " // "); idx >= 0 {
			l = strings.TrimSpace(l[:idx])
		}
		if l == "" || strings.HasPrefix(l, "//") {
			continue
		}
		where := fmt.Sprintf("%s:%d", rel, i+1)
		first := strings.Fields(l)[0]
		switch first {
		case "func":
			m := reFunc.FindStringSubmatch(l)
			if m == nil {
				return fmt.Errorf("%s: bad func header %q", where, l)
			}
			key := pkg + "." + m[3]
			if m[2] != "" {
				key = pkg + "." + m[2] + "." + m[3]
			}
			cur = &FuncContract{Key: key, Pkg: pkg, RecvName: m[1], Loops: map[int]*LoopSpec{}, Calls: map[string][]Clause{}, CallUses: map[string][]Clause{}, Where: where}
			if _, dup := cs.Funcs[key]; dup {
				return fmt.Errorf("%s: duplicate contract for %s", where, key)
			}
			cs.Funcs[key] = cur
			appendTo = nil
			continue
		case "family":
			m := reFamily.FindStringSubmatch(l)
			if m == nil {
				return fmt.Errorf("%s: bad family header %q", where, l)
			}
			key := m[1] + "." + m[2] + "." + m[3]
			cur = &FuncContract{Key: key, Pkg: pkg, Loops: map[int]*LoopSpec{}, Calls: map[string][]Clause{}, CallUses: map[string][]Clause{}, Where: where, IsFamily: true, FamIface: m[1] + "." + m[2], FamMethod: m[3]}
			for _, p := range parseParams(m[4]) {
				cur.Params = append(cur.Params, p.Name)
			}
			cs.Families[key] = cur
			appendTo = nil
			continue
		case "default":
			m := reDefault.FindStringSubmatch(l)
			if m == nil {
				return fmt.Errorf("%s: bad default header %q", where, l)
			}
			cur = &FuncContract{Key: pkg + "." + m[2], Pkg: pkg, RecvName: m[1], Loops: map[int]*LoopSpec{}, Calls: map[string][]Clause{}, CallUses: map[string][]Clause{}, Where: where}
			cs.Defaults[cur.Key] = cur
			appendTo = nil
			continue
		case "spec", "pred":
			m := reSpec.FindStringSubmatch(l)
			if m == nil {
				return fmt.Errorf("%s: bad spec %q", where, l)
			}
			var reads []string
			if rm := reReads.FindStringSubmatch(l); rm != nil && !strings.Contains(l, "=") {
				for _, it := range splitTop(rm[1], ',') {
					reads = append(reads, strings.TrimSpace(it))
				}
				l = reReads.ReplaceAllString(l, "")
				m = reSpec.FindStringSubmatch(l)
			}
			sf := &SpecFunc{Name: m[2], Pkg: pkg, Params: parseParams(m[3]), Ret: strings.TrimSpace(m[4]), Body: strings.TrimSpace(m[5]), Where: where, Reads: reads}
			if m[1] == "pred" {
				sf.Ret = "bool"
			}
			if _, dup := cs.Specs[sf.Name]; dup {
				return fmt.Errorf("%s: duplicate spec %s", where, sf.Name)
			}
			cs.Specs[sf.Name] = sf
			cur = nil
			appendTo = func(s string) { sf.Body += " " + s }
			continue
		case "axiom":
			m := reAxiom.FindStringSubmatch(l)
			if m == nil {
				return fmt.Errorf("%s: bad axiom %q", where, l)
			}
			ax := &Axiom{Name: m[1], Pkg: pkg, Params: parseParams(m[2]), Body: m[3], Where: where}
			cs.Axioms[ax.Name] = ax
			cur = nil
			appendTo = func(s string) { ax.Body += " " + s }
			continue
		case "globalinv":
			cs.GlobalInvs = append(cs.GlobalInvs, Clause{Label: pkg, Expr: strings.TrimSpace(strings.TrimPrefix(l, "globalinv")), Where: where})
			cur = nil
			n := len(cs.GlobalInvs) - 1
			appendTo = func(s string) { cs.GlobalInvs[n].Expr += " " + s }
			continue
		case "nonnil":
			f := strings.Fields(l)
			if len(f) < 3 {
				return fmt.Errorf("%s: bad nonnil %q", where, l)
			}
			cs.NonNil = append(cs.NonNil, NonNilDecl{Pkg: pkg, Kind: f[1], What: strings.Join(f[2:], " "), Where: where})
			cur = nil
			appendTo = nil
			continue
		case "allocbound":
			// allocbound N: allocations of at most N bytes are assumed to succeed
			f := strings.Fields(l)
			if len(f) != 2 {
				return fmt.Errorf("%s: bad allocbound %q", where, l)
			}
			n, err := strconv.ParseInt(f[1], 10, 64)
			if err != nil || n <= 0 {
				return fmt.Errorf("%s: bad allocbound %q", where, l)
			}
			cs.AllocBound = n
			cur = nil
			appendTo = nil
			continue
		case "storeinv":
			// storeinv pkg.Struct.Field: <expr over v>  -- asserted at every store to that
			// field of an object the storing function did not allocate itself
			parts := strings.SplitN(strings.TrimSpace(strings.TrimPrefix(l, "storeinv")), ":", 2)
			if len(parts) != 2 {
				return fmt.Errorf("%s: bad storeinv %q", where, l)
			}
			if cs.StoreInvs == nil {
				cs.StoreInvs = map[string]*StoreInv{}
			}
			si := &StoreInv{Pkg: pkg, Field: strings.TrimSpace(parts[0]), Expr: strings.TrimSpace(parts[1]), Where: where}
			cs.StoreInvs[si.Field] = si
			cur = nil
			appendTo = func(s string) { si.Expr += " " + s }
			continue
		case "modset":
			parts := strings.SplitN(strings.TrimSpace(strings.TrimPrefix(l, "modset")), "=", 2)
			if len(parts) != 2 {
				return fmt.Errorf("%s: bad modset %q", where, l)
			}
			cs.ModSets[pkg+"."+strings.TrimSpace(parts[0])] = strings.TrimSpace(parts[1])
			cur = nil
			appendTo = nil
			continue
		case "ghost":
			if m := reGhostField.FindStringSubmatch(l); m != nil {
				cs.Ghosts = append(cs.Ghosts, GhostField{Pkg: pkg, Struct: m[1], Field: m[2], Type: m[3]})
				continue
			}
		}
		if cur == nil {
			if appendTo != nil {
				appendTo(l)
				continue
			}
			return fmt.Errorf("%s: clause outside a contract: %q", where, l)
		}
		rest := strings.TrimSpace(strings.TrimPrefix(l, first))
		mk := func(s string) Clause {
			c := Clause{Expr: s, Where: where}
			if m := reLabel.FindStringSubmatch(s); m != nil && !strings.Contains(m[1], "(") {
				c.Label, c.Expr = m[1], m[2]
			}
			return c
		}
		switch first {
		case "requires":
			cur.Requires = append(cur.Requires, mk(rest))
			n := len(cur.Requires) - 1
			c := cur
			appendTo = func(s string) { c.Requires[n].Expr += " " + s }
		case "ensures":
			cur.Ensures = append(cur.Ensures, mk(rest))
			n := len(cur.Ensures) - 1
			c := cur
			appendTo = func(s string) { c.Ensures[n].Expr += " " + s }
		case "goal":
			cur.Goals = append(cur.Goals, mk(rest))
			n := len(cur.Goals) - 1
			c := cur
			appendTo = func(s string) { c.Goals[n].Expr += " " + s }
		case "modifies":
			cur.HasMod = true
			for strings.Contains(rest, "@") {
				m := regexp.MustCompile(`@(\w+)`).FindStringSubmatch(rest)
				if m == nil {
					break
				}
				def, ok := cs.ModSets[pkg+"."+m[1]]
				if !ok {
					return fmt.Errorf("%s: unknown modset %s", where, m[1])
				}
				rest = strings.Replace(rest, "@"+m[1], def, 1)
			}
			for _, it := range splitTop(rest, ',') {
				it = strings.TrimSpace(it)
				if it != "" && it != "nothing" {
					cur.Modifies = append(cur.Modifies, it)
				}
			}
			c := cur
			appendTo = func(s string) {
				for _, it := range splitTop(s, ',') {
					it = strings.TrimSpace(it)
					if it != "" {
						c.Modifies = append(c.Modifies, it)
					}
				}
			}
		case "trusted-modifies":
			cur.HasTrustedMod = true
			for _, it := range splitTop(rest, ',') {
				it = strings.TrimSpace(it)
				if it != "" && it != "nothing" {
					cur.TrustedMod = append(cur.TrustedMod, it)
				}
			}
			appendTo = nil
		case "use":
			cur.Uses = append(cur.Uses, Clause{Expr: rest, Where: where})
			appendTo = nil
		case "use@post":
			cur.UsesPost = append(cur.UsesPost, Clause{Expr: rest, Where: where})
			appendTo = nil
		case "loop":
			m := reLoop.FindStringSubmatch(l)
			if m == nil {
				return fmt.Errorf("%s: bad loop clause %q", where, l)
			}
			k, _ := strconv.Atoi(m[1])
			ls := cur.Loops[k]
			if ls == nil {
				ls = &LoopSpec{}
				cur.Loops[k] = ls
			}
			switch m[2] {
			case "invariant":
				ls.Invariants = append(ls.Invariants, mk(m[3]))
				n := len(ls.Invariants) - 1
				appendTo = func(s string) { ls.Invariants[n].Expr += " " + s }
			case "deterministic-by-contract":
				ls.ByContract = true
				appendTo = nil
			case "continues-only-if":
				ls.BackAsserts = append(ls.BackAsserts, mk(m[3]))
				n := len(ls.BackAsserts) - 1
				appendTo = func(s string) { ls.BackAsserts[n].Expr += " " + s }
			case "decreases":
				c := Clause{Expr: m[3], Where: where}
				ls.Decreases = &c
				appendTo = nil
			case "use":
				ls.Uses = append(ls.Uses, Clause{Expr: m[3], Where: where})
				appendTo = nil
			case "unroll":
				ls.Unroll, _ = strconv.Atoi(strings.TrimSpace(m[3]))
				appendTo = nil
			}
		case "return":
			m := reRet.FindStringSubmatch(l)
			if m == nil {
				return fmt.Errorf("%s: bad return clause %q", where, l)
			}
			if cur.Rets == nil {
				cur.Rets = map[string][]Clause{}
			}
			key := "ret#" + m[1]
			cur.Rets[key] = append(cur.Rets[key], mk(m[2]))
			n := len(cur.Rets[key]) - 1
			c := cur
			appendTo = func(s string) { c.Rets[key][n].Expr += " " + s }
		case "call":
			m := reCall.FindStringSubmatch(l)
			if m == nil {
				return fmt.Errorf("%s: bad call clause %q", where, l)
			}
			key := m[1]
			if m[2] == "bind" {
				if cur.CallBinds == nil {
					cur.CallBinds = map[string]string{}
				}
				cur.CallBinds[key] = strings.TrimSpace(m[3])
				appendTo = nil
			} else if m[2] == "assert" {
				cur.Calls[key] = append(cur.Calls[key], mk(m[3]))
				n := len(cur.Calls[key]) - 1
				c := cur
				appendTo = func(s string) { c.Calls[key][n].Expr += " " + s }
			} else {
				cur.CallUses[key] = append(cur.CallUses[key], Clause{Expr: m[3], Where: where})
				appendTo = nil
			}
		case "ghost":
			// ghost x.f = e   (executed at every return, before ensures are checked)
			parts := strings.SplitN(rest, "=", 2)
			if len(parts) != 2 {
				return fmt.Errorf("%s: bad ghost assignment %q", where, l)
			}
			cur.Ghost = append(cur.Ghost, GhostSet{LHS: strings.TrimSpace(parts[0]), RHS: strings.TrimSpace(parts[1]), Where: where})
			appendTo = nil
		case "inline":
			cur.Inline = true
		case "trusted":
			cur.TrustedAll = true
		case "trusted-ensures":
			cur.Trusted = append(cur.Trusted, mk(rest))
			n := len(cur.Trusted) - 1
			c := cur
			appendTo = func(s string) { c.Trusted[n].Expr += " " + s }
		case "nodefault":
			cur.NoDefault = true
		case "nosafety":
			cur.NoSafety = true
		case "pure":
			cur.Pure = true
		case "ints":
			cur.Wrap64 = strings.Contains(rest, "wrap64")
		case "decreases":
			c := Clause{Expr: rest, Where: where}
			cur.RecDec = &c
		default:
			if appendTo != nil {
				appendTo(l)
				continue
			}
			return fmt.Errorf("%s: unknown clause %q", where, l)
		}
	}
	return nil
}

// splitTop splits s at sep occurring outside parentheses/brackets.
func splitTop(s string, sep byte) []string {
	var out []string
	depth := 0
	last := 0
	inStr := byte(0)
	for i := 0; i < len(s); i++ {
		c := s[i]
		if inStr != 0 {
			if c == '\\' {
				i++
			} else if c == inStr {
				inStr = 0
			}
			continue
		}
		switch c {
		case '"', '\'', '`':
			inStr = c
		case '(', '[', '{':
			depth++
		case ')', ']', '}':
			depth--
		default:
			if c == sep && depth == 0 {
				out = append(out, s[last:i])
				last = i + 1
			}
		}
	}
	out = append(out, s[last:])
	return out
}

// splitImplies rewrites "a ==> b" (lowest precedence, right associative) and
// "a <==> b" into implies(a,b) / iff(a,b) so that go/parser can read it.
func rewriteImplies(s string) string {
	// find top-level <==> first (lowest), then ==>
	if i := findTop(s, "<==>"); i >= 0 {
		return "iff(" + rewriteImplies(s[:i]) + ", " + rewriteImplies(s[i+4:]) + ")"
	}
	if i := findTop(s, "==>"); i >= 0 {
		return "implies(" + rewriteImplies(s[:i]) + ", " + rewriteImplies(s[i+3:]) + ")"
	}
	// recurse into parenthesised groups
	var b strings.Builder
	i := 0
	for i < len(s) {
		c := s[i]
		if c == '"' || c == '\'' || c == '`' {
			j := i + 1
			for j < len(s) && s[j] != c {
				if s[j] == '\\' {
					j++
				}
				j++
			}
			b.WriteString(s[i:min(j+1, len(s))])
			i = j + 1
			continue
		}
		if c == '(' || c == '[' {
			closeC := byte(')')
			if c == '[' {
				closeC = ']'
			}
			depth := 0
			j := i
			inStr := byte(0)
			for ; j < len(s); j++ {
				d := s[j]
				if inStr != 0 {
					if d == '\\' {
						j++
					} else if d == inStr {
						inStr = 0
					}
					continue
				}
				if d == '"' || d == '\'' || d == '`' {
					inStr = d
				} else if d == '(' || d == '[' {
					depth++
				} else if d == ')' || d == ']' {
					depth--
					if depth == 0 {
						break
					}
				}
			}
			if j >= len(s) {
				b.WriteString(s[i:])
				break
			}
			inner := s[i+1 : j]
			parts := splitTop(inner, ',')
			for k := range parts {
				parts[k] = rewriteImplies(parts[k])
			}
			b.WriteByte(c)
			b.WriteString(strings.Join(parts, ","))
			b.WriteByte(closeC)
			i = j + 1
			continue
		}
		b.WriteByte(c)
		i++
	}
	return b.String()
}

func findTop(s, op string) int {
	depth := 0
	inStr := byte(0)
	for i := 0; i < len(s); i++ {
		c := s[i]
		if inStr != 0 {
			if c == '\\' {
				i++
			} else if c == inStr {
				inStr = 0
			}
			continue
		}
		switch c {
		case '"', '\'', '`':
			inStr = c
		case '(', '[', '{':
			depth++
		case ')', ']', '}':
			depth--
		}
		if depth == 0 && strings.HasPrefix(s[i:], op) {
			if op == "==>" && i > 0 && s[i-1] == '<' {
				continue
			}
			return i
		}
	}
	return -1
}
