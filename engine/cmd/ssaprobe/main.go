package main

import (
	"fmt"
	"os"
	"go/types"

	"golang.org/x/tools/go/packages"
	"golang.org/x/tools/go/ssa"
	"golang.org/x/tools/go/ssa/ssautil"
)

func main() {
	cfg := &packages.Config{Mode: packages.LoadAllSyntax, Dir: "/repo", BuildFlags: []string{"-tags=verif"}}
	pkgs, err := packages.Load(cfg, "./...")
	if err != nil {
		panic(err)
	}
	prog, spkgs := ssautil.Packages(pkgs, ssa.NaiveForm|ssa.InstantiateGenerics)
	prog.Build()
	for _, p := range spkgs {
		if p == nil {
			continue
		}
		for _, m := range p.Members {
			if f, ok := m.(*ssa.Function); ok && len(os.Args) > 1 && f.Name() == os.Args[1] {
				f.WriteTo(os.Stdout)
			}
		}
		for _, m := range p.Members {
			if t, ok := m.(*ssa.Type); ok {
				ms := prog.MethodSets.MethodSet(t.Type())
				_ = ms
				for _, tt := range []interface{ String() string }{} {
					_ = tt
				}
				mset := prog.MethodSets.MethodSet(ptrTo(t))
				for i := 0; i < mset.Len(); i++ {
					f := prog.MethodValue(mset.At(i))
					if f != nil && len(os.Args) > 1 && f.Name() == os.Args[1] {
						f.WriteTo(os.Stdout)
					}
				}
			}
		}
	}
	fmt.Println("done")
}

func ptrTo(t *ssa.Type) *types.Pointer { return types.NewPointer(t.Type()) }
