package main

import (
	"fmt"
	"go/types"
	"strings"

	"golang.org/x/tools/go/ssa"
)

func (x *Exec) contractFor(f *ssa.Function) *FuncContract {
	if f == nil {
		return nil
	}
	k := funcKey(f)
	if c, ok := x.effCache[k]; ok {
		return c
	}
	c := x.effectiveContract(f, x.cs.Funcs[k])
	x.effCache[k] = c
	return c
}

// familyFor returns the family contract of an interface method call.
func (x *Exec) familyFor(c *ssa.CallCommon) *FuncContract {
	if !c.IsInvoke() {
		return nil
	}
	it := c.Value.Type()
	name := structName(it)
	if fc, ok := x.cs.Families[name+"."+c.Method.Name()]; ok {
		return fc
	}
	// embedded interfaces: ast.Expression / ast.Statement embed ast.Node
	if iface, ok := it.Underlying().(*types.Interface); ok {
		for i := 0; i < iface.NumEmbeddeds(); i++ {
			en := structName(iface.EmbeddedType(i))
			if fc, ok := x.cs.Families[en+"."+c.Method.Name()]; ok {
				return fc
			}
		}
	}
	return nil
}

func (x *Exec) funcTypeFamily(t types.Type) *FuncContract {
	n, ok := t.(*types.Named)
	if !ok {
		return nil
	}
	if fc, ok := x.cs.Families[structName(n)+".call"]; ok {
		return fc
	}
	return nil
}

// familiesOf returns the family contracts a concrete method must satisfy.
func (x *Exec) familiesOf(f *ssa.Function) []*FuncContract {
	if f.Signature.Recv() == nil {
		return nil
	}
	rt := f.Signature.Recv().Type()
	var out []*FuncContract
	for _, fc := range x.cs.Families {
		if fc.FamMethod != f.Name() {
			continue
		}
		it := x.ld.resolveTypeString(fc.Pkg, fc.FamIface)
		if it == nil {
			continue
		}
		iface, ok := it.Underlying().(*types.Interface)
		if !ok {
			continue
		}
		if types.Implements(rt, iface) {
			out = append(out, fc)
		}
	}
	return out
}

func (x *Exec) siteOrd(fr *Frame, in ssa.Instruction) string {
	return sites(fr.fn).names[in]
}

func (x *Exec) call(st *State, fr *Frame, v *ssa.Call) []*State {
	c := v.Common()
	site := x.siteName(fr, v)
	// call-site assertions from the contract of the function under verification
	if x.topC != nil && fr.fn == x.top {
		as := x.topC.Calls[x.siteOrd(fr, v)]
		if so := x.siteOrd(fr, v); strings.Contains(so, "#") {
			as = append(append([]Clause{}, as...), x.topC.Calls[so[:strings.Index(so, "#")]+"#*"]...)
		}
		if len(as) > 0 {
			env := x.envFor(st, fr)
			for i, a := range c.Args {
				env.vars[fmt.Sprintf("arg%d", i)] = x.get(fr, a)
				env.types[fmt.Sprintf("arg%d", i)] = a.Type()
			}
			if c.IsInvoke() {
				env.vars["recv"] = x.get(fr, c.Value)
				env.types["recv"] = c.Value.Type()
			}
			x.checkClauses(st, env, as, "assert", x.topKey, site, false)
		}
	}
	if b, ok := c.Value.(*ssa.Builtin); ok {
		return x.builtin(st, fr, v, b)
	}
	if c.IsInvoke() {
		return x.invoke(st, fr, v)
	}
	callee := c.StaticCallee()
	var args []Val
	for _, a := range c.Args {
		av := x.get(fr, a)
		args = append(args, av)
		x.checkEscape(st, fr, v, av)
	}
	if callee == nil {
		return x.dynCall(st, fr, v, args)
	}
	// closure with bindings created in this activation
	if mc, ok := c.Value.(*ssa.MakeClosure); ok {
		_ = mc
	}
	return x.staticCall(st, fr, v, callee, args, nil)
}

func (x *Exec) staticCall(st *State, fr *Frame, v *ssa.Call, callee *ssa.Function, args []Val, bindings []Val) []*State {
	site := x.siteName(fr, v)
	if callee.Name() == "init" && strings.Contains(callee.Synthetic, "package initializer") {
		// initialisers of imported packages only establish their own packages' variables
		return nil
	}
	if fc := x.contractFor(callee); fc != nil && !fc.Inline {
		x.modularCall(st, fr, v, callee, fc, args, site, nil)
		return nil
	}
	if !inModule(callee) || len(callee.Blocks) == 0 {
		x.stdlibCall(st, fr, v, callee, args, site)
		// a contract may bind the result of a library call, too
		if x.topC != nil && fr.fn == x.top {
			if bn, ok := x.topC.CallBinds[x.siteOrd(fr, v)]; ok {
				if res, ok := fr.regs[v]; ok && res != nil {
					fr.binds[bn] = res
				}
			}
		}
		return nil
	}
	// a method whose interface family contract exists is called through it
	if fams := x.familiesOf(callee); len(fams) > 0 && callee != x.top {
		x.modularCall(st, fr, v, callee, fams[0], args, site, nil)
		return nil
	}
	// inline
	depth := len(st.frames)
	recursive := callee == x.top
	for _, f := range st.frames {
		if f.fn == callee {
			recursive = true
		}
	}
	if recursive || depth > 8 {
		x.havocCall(st, fr, v, funcKey(callee), site)
		return nil
	}
	x.inlined[funcKey(callee)]++
	nf := x.newFrame(callee)
	nf.block = callee.Blocks[0]
	nf.call = v
	nf.site = site
	nf.wrap64 = fr.wrap64
	for i, p := range callee.Params {
		nf.regs[p] = args[i]
	}
	for i, fv := range callee.FreeVars {
		if i < len(bindings) {
			nf.regs[fv] = bindings[i]
		} else {
			nf.regs[fv] = x.freshVal(st, fv.Type(), "fv")
		}
	}
	st.frames = append(st.frames, nf)
	return nil
}

// havocCall: unknown effect. Everything reachable may change; result unconstrained.
func (x *Exec) havocCall(st *State, fr *Frame, v *ssa.Call, what, site string) {
	x.havocCalls[what]++
	if x.checkMods {
		all := false
		for _, m := range x.mods {
			if m.Kind == "all" {
				all = true
			}
		}
		if !all {
			x.emit(st, x.topKey+"/frame:unknown-effects@"+site, "frame", TFalse, nil)
		}
	}
	x.havocAll(st)
	na := Fresh("A", SInt)
	st.assume(Ge(na, st.alloc))
	st.alloc = na
	if v.Type() != nil && !isEmptyTuple(v.Type()) {
		fr.regs[v] = x.freshVal(st, v.Type(), "hv")
	}
}

func isEmptyTuple(t types.Type) bool {
	tt, ok := t.(*types.Tuple)
	return ok && tt.Len() == 0
}

// modularCall: assert requires, havoc modifies, assume ensures.
func (x *Exec) modularCall(st *State, fr *Frame, v *ssa.Call, callee *ssa.Function, fc *FuncContract, args []Val, site string, thisV Val) {
	vars := map[string]Val{}
	tys := map[string]types.Type{}
	if callee != nil {
		for i, p := range callee.Params {
			vars[p.Name()] = args[i]
			tys[p.Name()] = p.Type()
			if i == 0 && callee.Signature.Recv() != nil {
				vars["this"] = x.makeIface(st, args[i], p.Type())
				tys["this"] = x.ld.anyType()
				if _, isPtr := p.Type().Underlying().(*types.Pointer); isPtr {
					if pv, ok := args[i].(*PtrV); ok && pv.Kind == PObj {
						x.emit(st, x.topKey+"/pre:recv-nonnil@"+site, "pre", Ne(pv.Ref, IntC(0)), nil)
					}
				}
			}
		}
	}
	if fc.IsFamily {
		// parameters named in the family header: this, then the method parameters
		sig := v.Common().Signature()
		for i, n := range fc.Params {
			if i == 0 {
				if thisV != nil {
					vars[n] = thisV
					tys[n] = v.Common().Value.Type()
				} else if callee != nil && len(args) > 0 {
					vars[n] = x.makeIface(st, args[0], callee.Params[0].Type())
					tys[n] = x.ld.anyType()
				}
				continue
			}
			off := i - 1
			if thisV == nil && callee != nil && callee.Signature.Recv() != nil {
				off = i
			}
			if off < len(args) {
				vars[n] = args[off]
				if thisV != nil {
					tys[n] = sig.Params().At(i - 1).Type()
				} else {
					tys[n] = callee.Params[off].Type()
				}
			}
		}
	}
	pkg := fnPkg(fr.fn)
	if p := x.ld.pkgByName[fc.Pkg]; p != nil {
		pkg = p
	}
	preSnap := st.snapshot()
	preEnv := &Env{x: x, st: preSnap, vars: vars, types: tys, pkg: pkg, isPre: true, facts: st}
	x.checkClauses(st, preEnv, fc.Requires, "pre", x.topKey, site, false)
	// recursion variant
	if fc.RecDec != nil && x.topC != nil && x.topC.RecDec != nil && x.sameRecGroup(callee) {
		cv, err1 := preEnv.evalIntList(fc.RecDec.Expr)
		tv, err2 := x.preEnv.evalIntList(x.topC.RecDec.Expr)
		if err1 == nil && err2 == nil {
			x.emit(st, fmt.Sprintf("%s/rec-dec@%s", x.topKey, site), "dec", lexLess(cv, tv), nil)
		} else {
			x.errors = append(x.errors, fmt.Sprintf("%s: decreases: %v %v", fc.Where, err1, err2))
		}
	}
	// effects
	mods, hasMod := fc.Modifies, fc.HasMod
	if fc.HasTrustedMod {
		mods, hasMod = fc.TrustedMod, true
		x.stdlibUsed["trusted frame of "+fc.Key+": modifies "+strings.Join(append([]string{"(only fresh objects)"}, fc.TrustedMod...), ", ")]++
	}
	if hasMod {
		for _, m := range mods {
			it, err := preEnv.evalModItem(m)
			if err != nil {
				x.errors = append(x.errors, fmt.Sprintf("%s: modifies %q (at call in %s): %v", fc.Where, m, x.topKey, err))
				continue
			}
			x.checkModCovered(st, fr, v, it, site)
			x.havocItem(st, it)
		}
	}
	na := Fresh("A", SInt)
	st.assume(Ge(na, st.alloc))
	st.alloc = na
	// result
	var res Val
	rt := v.Type()
	if rt != nil && !isEmptyTuple(rt) {
		res = x.freshVal(st, rt, "r!"+shortKey(fc.Key))
		fr.regs[v] = res
	}
	postEnv := &Env{x: x, st: st, vars: copyVars(vars), types: copyTypes(tys), pkg: pkg, old: preEnv, facts: st}
	if res != nil {
		if tt, ok := rt.(*types.Tuple); ok {
			for i := 0; i < tt.Len(); i++ {
				n := fmt.Sprintf("result%d", i)
				postEnv.vars[n] = res.(TupleV)[i]
				postEnv.types[n] = tt.At(i).Type()
			}
		} else {
			postEnv.vars["result"] = res
			postEnv.types["result"] = rt
			postEnv.vars["result0"] = res
			postEnv.types["result0"] = rt
		}
	}
	for _, g := range fc.Ghost {
		if err := postEnv.ghostAssign(g.LHS, g.RHS); err != nil {
			x.errors = append(x.errors, fmt.Sprintf("%s: ghost (at call): %v", g.Where, err))
		}
	}
	for _, e := range append(append([]Clause{}, fc.Ensures...), fc.Trusted...) {
		t, err := postEnv.evalBool(e.Expr)
		if err != nil {
			x.errors = append(x.errors, fmt.Sprintf("%s: ensures (at call in %s): %v", e.Where, x.topKey, err))
			continue
		}
		st.assume(t)
	}
	for _, e := range fc.Trusted {
		x.stdlibUsed["trusted postcondition of "+fc.Key+": "+e.Expr]++
	}
	if x.topC != nil && fr.fn == x.top && res != nil {
		if bn, ok := x.topC.CallBinds[x.siteOrd(fr, v)]; ok {
			fr.binds[bn] = res
		}
	}
	// caller-side use clauses after this call
	if x.topC != nil && fr.fn == x.top {
		if us := x.topC.CallUses[x.siteOrd(fr, v)]; len(us) > 0 {
			env := x.envFor(st, fr)
			if res != nil {
				env.vars["ret"] = res
				env.types["ret"] = rt
				if tv, ok := res.(TupleV); ok {
					if tt, ok := rt.(*types.Tuple); ok {
						for i := range tv {
							env.vars[fmt.Sprintf("ret%d", i)] = tv[i]
							env.types[fmt.Sprintf("ret%d", i)] = tt.At(i).Type()
						}
					}
				}
			}
			for _, u := range us {
				t, err := env.evalUse(u.Expr)
				if err != nil {
					x.errors = append(x.errors, fmt.Sprintf("%s: call use: %v", u.Where, err))
					continue
				}
				st.assumeUse(t)
			}
		}
	}
}

func shortKey(k string) string {
	parts := strings.Split(k, ".")
	return parts[len(parts)-1]
}

func copyVars(m map[string]Val) map[string]Val {
	n := make(map[string]Val, len(m))
	for k, v := range m {
		n[k] = v
	}
	return n
}

func copyTypes(m map[string]types.Type) map[string]types.Type {
	n := make(map[string]types.Type, len(m))
	for k, v := range m {
		n[k] = v
	}
	return n
}

func (x *Exec) sameRecGroup(callee *ssa.Function) bool {
	return callee != nil && fnPkg(callee) == fnPkg(x.top)
}

// checkModCovered: a callee's modifies item must lie inside the caller's frame.
func (x *Exec) checkModCovered(st *State, fr *Frame, v ssa.Instruction, it ModItem, site string) {
	if !x.checkMods {
		return
	}
	switch it.Kind {
	case "all":
		for _, m := range x.mods {
			if m.Kind == "all" {
				return
			}
		}
		x.emit(st, x.topKey+"/frame:callee-modifies-everything@"+site, "frame", TFalse, nil)
	case "global":
		x.checkFrameGlobal(st, fr, v, it.Global)
	case "field":
		x.checkFrame(st, fr, v, it.Ref, fieldKey(it.Owner, it.Path))
	case "allfields":
		// every field: the caller needs allfields on the same object (or freshness)
		alts := []*T{Ge(it.Ref, st.alloc0)}
		for _, m := range x.mods {
			if m.Kind == "all" {
				return
			}
			if m.Kind == "allfields" && structName(m.Owner) == structName(it.Owner) {
				alts = append(alts, Eq(it.Ref, m.Ref))
			}
		}
		x.emit(st, x.topKey+"/frame:"+structName(it.Owner)+".*@"+site, "frame", Or(alts...), nil)
	case "mapc":
		x.checkFrame(st, fr, v, it.Ref, mapDomKey(it.MapT))
	case "slicec":
		x.checkFrame(st, fr, v, it.Ref, elemKey(it.ElemT, ""))
	case "anyfield":
		for _, m := range x.mods {
			if m.Kind == "all" || (m.Kind == "anyfield" && structName(m.Owner) == structName(it.Owner) && m.Path == it.Path) {
				return
			}
		}
		x.emit(st, x.topKey+"/frame:"+it.Text+"@"+site, "frame", TFalse, nil)
	case "anyslice", "anymap":
		for _, m := range x.mods {
			if m.Kind == "all" {
				return
			}
			if it.Kind == "anyslice" && m.Kind == "anyslice" && typeKey(m.ElemT) == typeKey(it.ElemT) {
				return
			}
			if it.Kind == "anymap" && m.Kind == "anymap" && typeKey(m.MapT) == typeKey(it.MapT) {
				return
			}
		}
		x.emit(st, x.topKey+"/frame:"+it.Text+"@"+site, "frame", TFalse, nil)
	}
}

func (x *Exec) havocItem(st *State, it ModItem) {
	switch it.Kind {
	case "all":
		x.havocAll(st)
	case "global":
		pfx := globalKey(it.Global, it.Path)
		for _, l := range x.leaves(fieldTypeOrSelf(it.Global.Type().(*types.Pointer).Elem(), it.Path)) {
			key := globalKey(it.Global, joinPath(it.Path, l.path))
			st.heapArr(key, l.sort)
		}
		for _, k := range sortedHeapKeys(st.heap) {
		a := st.heap[k]
			if k == pfx || strings.HasPrefix(k, pfx+".") || strings.HasPrefix(k, pfx+"#") {
				st.heap[k] = Fresh("Hg!"+k, a.Sort)
			}
		}
	case "field":
		ft := fieldType(it.Owner, it.Path)
		if ft == nil {
			// ghost field
			for _, l := range x.leaves(it.Owner) {
				if l.path == it.Path {
					key := fieldKey(it.Owner, l.path)
					arr := st.heapArr(key, ArrSort(SInt, l.sort))
					st.setHeap(key, Store(arr, it.Ref, Fresh("hv", l.sort)))
				}
			}
			return
		}
		for _, l := range x.leaves(ft) {
			key := fieldKey(it.Owner, joinPath(it.Path, l.path))
			arr := st.heapArr(key, ArrSort(SInt, l.sort))
			st.setHeap(key, Store(arr, it.Ref, Fresh("hv", l.sort)))
		}
	case "allfields":
		for _, l := range x.leaves(it.Owner) {
			key := fieldKey(it.Owner, l.path)
			arr := st.heapArr(key, ArrSort(SInt, l.sort))
			st.setHeap(key, Store(arr, it.Ref, Fresh("hv", l.sort)))
		}
	case "mapc":
		ks, et := x.mapSorts(it.MapT)
		dk := mapDomKey(it.MapT)
		dom := st.heapArr(dk, ArrSort(SInt, ArrSort(ks, SBool)))
		st.setHeap(dk, Store(dom, it.Ref, Fresh("hv", ArrSort(ks, SBool))))
		for _, l := range x.leaves(et) {
			vk := mapValKey(it.MapT, l.path)
			arr := st.heapArr(vk, ArrSort(SInt, ArrSort(ks, l.sort)))
			st.setHeap(vk, Store(arr, it.Ref, Fresh("hv", ArrSort(ks, l.sort))))
		}
	case "slicec":
		for _, l := range x.leaves(it.ElemT) {
			key := elemKey(it.ElemT, l.path)
			arr := st.heapArr(key, ArrSort(SInt, ArrSort(SInt, l.sort)))
			st.setHeap(key, Store(arr, it.Ref, Fresh("hv", ArrSort(SInt, l.sort))))
		}
	case "anyfield":
		ft := fieldType(it.Owner, it.Path)
		if ft != nil {
			for _, l := range x.leaves(ft) {
				key := fieldKey(it.Owner, joinPath(it.Path, l.path))
				a := st.heapArr(key, ArrSort(SInt, l.sort))
				st.heap[key] = Fresh("Hf!"+key, a.Sort)
			}
		}
	case "anyslice":
		for _, l := range x.leaves(it.ElemT) {
			key := elemKey(it.ElemT, l.path)
			a := st.heapArr(key, ArrSort(SInt, ArrSort(SInt, l.sort)))
			st.heap[key] = Fresh("Hs!"+key, a.Sort)
		}
	case "anymap":
		ks, et := x.mapSorts(it.MapT)
		dk := mapDomKey(it.MapT)
		a := st.heapArr(dk, ArrSort(SInt, ArrSort(ks, SBool)))
		st.heap[dk] = Fresh("Hm!"+dk, a.Sort)
		for _, l := range x.leaves(et) {
			vk := mapValKey(it.MapT, l.path)
			a := st.heapArr(vk, ArrSort(SInt, ArrSort(ks, l.sort)))
			st.heap[vk] = Fresh("Hm!"+vk, a.Sort)
		}
	}
}

func fieldTypeOrSelf(t types.Type, path string) types.Type {
	if path == "" {
		return t
	}
	return fieldType(t, path)
}

// havocModText: used for loop havoc where the callee item cannot be evaluated precisely.
func (x *Exec) havocModText(st *State, fr *Frame, calleeKey, item string) {
	fc := x.cs.Funcs[calleeKey]
	if fc == nil {
		fc = x.cs.Families[calleeKey]
	}
	if item == "*" {
		x.havocAll(st)
		return
	}
	// resolve the static type of the item's root from the callee's signature
	f := x.ld.funcs[calleeKey]
	root := item
	rest := ""
	if i := strings.IndexAny(item, ".("); i >= 0 {
		root = item[:i]
		rest = item[i:]
	}
	if strings.HasPrefix(item, "anyfield(") {
		inner := item[len("anyfield(") : len(item)-1]
		if i := strings.LastIndex(inner, "."); i > 0 {
			pkgName := ""
			if fc != nil {
				pkgName = fc.Pkg
			}
			if t := x.ld.resolveTypeString(pkgName, inner[:i]); t != nil {
				x.havocItem(st, ModItem{Kind: "anyfield", Owner: t, Path: inner[i+1:]})
				return
			}
		}
	}
	if strings.HasPrefix(item, "anyslice(") || strings.HasPrefix(item, "anymap(") {
		pkgName := ""
		if fc != nil {
			pkgName = fc.Pkg
		}
		t := x.ld.resolveTypeString(pkgName, item[strings.Index(item, "(")+1:len(item)-1])
		if t != nil {
			if strings.HasPrefix(item, "anyslice(") {
				x.havocItem(st, ModItem{Kind: "anyslice", ElemT: t})
			} else {
				x.havocItem(st, ModItem{Kind: "anymap", MapT: t})
			}
			return
		}
	}
	if strings.HasPrefix(item, "asptr(") {
		// asptr(x, *T).path : fields of an object of type T
		close := strings.Index(item, ")")
		comma := strings.LastIndex(item[:close], ",")
		pkgName := ""
		if fc != nil {
			pkgName = fc.Pkg
		}
		if t := x.ld.resolveTypeString(pkgName, strings.TrimSpace(item[comma+1:close])); t != nil {
			if pt, ok := t.(*types.Pointer); ok {
				owner := pt.Elem()
				path := strings.TrimPrefix(item[close+1:], ".")
				segs := strings.Split(path, ".")
				cur := ""
				for i, sg := range segs {
					if sg == "*" || sg == "" {
						break
					}
					ft := fieldType(owner, joinPath(cur, sg))
					if ft == nil {
						cur = joinPath(cur, sg)
						break
					}
					if pp, ok := ft.Underlying().(*types.Pointer); ok && i < len(segs)-1 {
						owner = pp.Elem()
						cur = ""
						continue
					}
					cur = joinPath(cur, sg)
				}
				if strings.HasSuffix(path, "*") || path == "" {
					x.havocPrefix(st, "F:"+structName(owner)+"."+cur)
				} else {
					x.havocPrefix(st, fieldKey(owner, cur))
				}
				return
			}
		}
	}
	if strings.HasPrefix(item, "contents(") {
		// contents(e): havoc the maps / slices of e's static type
		inner := strings.TrimSuffix(strings.TrimPrefix(item, "contents("), ")")
		if t := x.staticTypeOf(f, inner); t != nil {
			switch u := t.Underlying().(type) {
			case *types.Map:
				x.havocItem(st, ModItem{Kind: "anymap", MapT: t})
				return
			case *types.Slice:
				x.havocItem(st, ModItem{Kind: "anyslice", ElemT: u.Elem()})
				return
			}
		}
		st.events = append(st.events, "MD:", "MV:", "E:")
		for _, k := range sortedHeapKeys(st.heap) {
		a := st.heap[k]
			if strings.HasPrefix(k, "MD:") || strings.HasPrefix(k, "MV:") || strings.HasPrefix(k, "E:") {
				st.heap[k] = Fresh("Hl!"+k, a.Sort)
			}
		}
		return
	}
	if f != nil {
		for _, p := range f.Params {
			if p.Name() == root {
				if pt, ok := p.Type().Underlying().(*types.Pointer); ok {
					t := pt.Elem()
					path := strings.TrimPrefix(rest, ".")
					// walk through pointer fields: a.b.c where b is a pointer -> owner changes
					owner := t
					segs := strings.Split(path, ".")
					cur := ""
					for i, s := range segs {
						if s == "*" || s == "" {
							break
						}
						ft := fieldType(owner, joinPath(cur, s))
						if ft == nil {
							cur = joinPath(cur, s) // ghost
							break
						}
						if pp, ok := ft.Underlying().(*types.Pointer); ok && i < len(segs)-1 {
							owner = pp.Elem()
							cur = ""
							continue
						}
						cur = joinPath(cur, s)
					}
					if strings.HasSuffix(path, "*") || path == "" {
						x.havocPrefix(st, "F:"+structName(owner)+"."+cur)
					} else {
						x.havocPrefix(st, fieldKey(owner, cur))
					}
					return
				}
			}
		}
	}
	// global?
	if fc != nil {
		if p := x.ld.pkgByName[fc.Pkg]; p != nil {
			if sp := x.ld.prog.Package(p); sp != nil {
				if g, ok := sp.Members[root].(*ssa.Global); ok {
					x.havocPrefix(st, "G:"+g.Pkg.Pkg.Name()+"."+g.Name())
					return
				}
			}
		}
	}
	x.havocAll(st)
}

// ---- builtins ----

func (x *Exec) builtin(st *State, fr *Frame, v *ssa.Call, b *ssa.Builtin) []*State {
	c := v.Common()
	arg := func(i int) Val { return x.get(fr, c.Args[i]) }
	switch b.Name() {
	case "len":
		switch a := arg(0).(type) {
		case *T:
			if a.Sort == SStr {
				fr.regs[v] = Slen(a)
			} else {
				// map
				mt := c.Args[0].Type()
				ks, _ := x.mapSorts(mt)
				if a.IsInt() && a.I.Sign() < 0 {
					tbl := x.ld.constMapByID[int(-a.I.Int64()-1000)]
					fr.regs[v] = IntC(int64(len(tbl.keys)))
					break
				}
				dom := Select(st.heapArr(mapDomKey(mt), ArrSort(SInt, ArrSort(ks, SBool))), a)
				n := UF("card!"+string(ks), SInt, dom)
				st.assumeDef(Ge(n, IntC(0)))
				fr.regs[v] = n
			}
		case *SliceV:
			fr.regs[v] = a.Len
		default:
			panic(fmt.Sprintf("len of %T", a))
		}
	case "cap":
		fr.regs[v] = arg(0).(*SliceV).Cap
	case "append":
		fr.regs[v] = x.appendOp(st, fr, v)
	case "copy":
		dst := arg(0).(*SliceV)
		et := c.Args[0].Type().Underlying().(*types.Slice).Elem()
		var n *T
		var srcBase, srcOff *T
		var srcStr *T
		switch s := arg(1).(type) {
		case *SliceV:
			n = Ite(Lt(dst.Len, s.Len), dst.Len, s.Len)
			srcBase, srcOff = s.Base, s.Off
		case *T:
			n = Ite(Lt(dst.Len, Slen(s)), dst.Len, Slen(s))
			srcStr = s
		}
		x.checkFrame(st, fr, v, dst.Base, elemKey(et, ""))
		if x.nnElems[typeKey(et)] && srcBase != nil {
			// the source obeys the declared invariant: none of its elements is nil
			unf := false
			for _, u := range st.unfilled {
				if same(u.base, srcBase) {
					unf = true
				}
			}
			if !unf {
				arrT := st.heapArr(elemKey(et, "#tag"), ArrSort(SInt, ArrSort(SInt, SInt)))
				bv := Sym("b!k", SInt)
				st.assumeDef(Forall([]*T{bv}, Implies(And(Ge(bv, srcOff), Lt(bv, Add(srcOff, n))), Ne(Select(Select(arrT, srcBase), bv), IntC(0)))))
			}
		}
		for _, l := range x.leaves(et) {
			key := elemKey(et, l.path)
			arr := st.heapArr(key, ArrSort(SInt, ArrSort(SInt, l.sort)))
			old := Select(arr, dst.Base)
			na := Fresh("cpy", ArrSort(SInt, l.sort))
			bv := Sym("b!k", SInt)
			var src *T
			if srcStr != nil {
				src = Sat(srcStr, Sub(bv, dst.Off))
			} else {
				src = Select(Select(arr, srcBase), Add(srcOff, Sub(bv, dst.Off)))
			}
			inRange := And(Ge(bv, dst.Off), Lt(bv, Add(dst.Off, n)))
			st.assumeDef(Forall([]*T{bv}, Eq(Select(na, bv), Ite(inRange, src, Select(old, bv)))))
			st.setHeap(key, Store(arr, dst.Base, na))
		}
		fr.regs[v] = n
	case "delete":
		m := x.scalar(arg(0))
		mt := c.Args[0].Type()
		ks, _ := x.mapSorts(mt)
		x.checkFrame(st, fr, v, m, mapDomKey(mt))
		dk := mapDomKey(mt)
		dom := st.heapArr(dk, ArrSort(SInt, ArrSort(ks, SBool)))
		st.setHeap(dk, Store(dom, m, Store(Select(dom, m), x.scalar(arg(1)), TFalse)))
	case "ssa:wrapnilchk":
		p := arg(0)
		x.safety(st, fr, v, "nil-deref", Ne(x.ptrRef(p), IntC(0)))
		fr.regs[v] = p
	case "ssa:deferstack":
		fr.regs[v] = IntC(0)
	case "print", "println":
	case "min", "max":
		a, bb := x.scalar(arg(0)), x.scalar(arg(1))
		if b.Name() == "min" {
			fr.regs[v] = Ite(Lt(a, bb), a, bb)
		} else {
			fr.regs[v] = Ite(Gt(a, bb), a, bb)
		}
	default:
		panic("builtin " + b.Name())
	}
	return nil
}

// appendOp: in place when capacity allows, otherwise a fresh backing array holding a copy.
func (x *Exec) appendOp(st *State, fr *Frame, v *ssa.Call) Val {
	c := v.Common()
	s := x.get(fr, c.Args[0]).(*SliceV)
	st2 := c.Args[0].Type().Underlying().(*types.Slice)
	et := st2.Elem()
	// elements to add: second arg is a slice (varargs) or a string (append([]byte, s...))
	var addLen *T
	var addElem func(l leaf, k *T) *T // element k of the added part, leaf l
	switch a := x.get(fr, c.Args[1]).(type) {
	case *SliceV:
		addLen = a.Len
		addElem = func(l leaf, k *T) *T {
			arr := st.heapArr(elemKey(et, l.path), ArrSort(SInt, ArrSort(SInt, l.sort)))
			return Select(Select(arr, a.Base), Add(a.Off, k))
		}
	case *T:
		addLen = Slen(a)
		addElem = func(l leaf, k *T) *T { return Sat(a, k) }
	}
	inplace := Le(Add(s.Len, addLen), s.Cap)
	if addLen.IsInt() && addLen.I.Sign() == 0 {
		return s
	}
	fresh := x.allocRef(st)
	newBase := Ite(inplace, s.Base, fresh)
	newOff := Ite(inplace, s.Off, IntC(0))
	newLen := Add(s.Len, addLen)
	newCap := Fresh("cap", SInt)
	st.assumeDef(And(Ge(newCap, newLen), Implies(inplace, Eq(newCap, s.Cap))))
	// frame: writing in place touches the old backing array
	if x.checkMods {
		x.emit(st, x.topKey+"/frame:append-in-place-"+frameKeyName(elemKey(et, ""))+"@"+x.siteName(fr, v), "frame",
			Or(Not(inplace), x.frameAllowed(st, s.Base, elemKey(et, ""))), nil)
	}
	for _, l := range x.leaves(et) {
		key := elemKey(et, l.path)
		arr := st.heapArr(key, ArrSort(SInt, ArrSort(SInt, l.sort)))
		old := Select(arr, s.Base)
		na := Fresh("app", ArrSort(SInt, l.sort))
		if addLen.IsInt() && addLen.I.Int64() <= 4 {
			// small constant number of elements: explicit stores
			n := int(addLen.I.Int64())
			inPl := old
			fr2 := Fresh("cp", ArrSort(SInt, l.sort))
			bv := Sym("b!k", SInt)
			st.assumeDef(Forall([]*T{bv}, Implies(And(Ge(bv, IntC(0)), Lt(bv, s.Len)), Eq(Select(fr2, bv), Select(old, Add(s.Off, bv))))))
			frA := fr2
			for k := 0; k < n; k++ {
				e := addElem(l, IntC(int64(k)))
				inPl = Store(inPl, Add(Add(s.Off, s.Len), IntC(int64(k))), e)
				frA = Store(frA, Add(s.Len, IntC(int64(k))), e)
			}
			st.assumeDef(Eq(na, Ite(inplace, inPl, frA)))
		} else {
			bv := Sym("b!k", SInt)
			idx := Sub(bv, newOff)
			val := Ite(And(Ge(idx, IntC(0)), Lt(idx, s.Len)), Select(old, Add(s.Off, idx)),
				Ite(And(Ge(idx, s.Len), Lt(idx, newLen)), addElem(l, Sub(idx, s.Len)), Select(old, bv)))
			st.assumeDef(Forall([]*T{bv}, Implies(Or(inplace, And(Ge(bv, IntC(0)), Lt(bv, newLen))), Eq(Select(na, bv), val))))
		}
		st.setHeap(key, Store(arr, newBase, na))
	}
	return &SliceV{Base: newBase, Off: newOff, Len: newLen, Cap: newCap}
}

func (x *Exec) frameAllowed(st *State, ref *T, key string) *T {
	alts := []*T{Ge(ref, st.alloc0)}
	for _, m := range x.mods {
		switch m.Kind {
		case "all":
			return TTrue
		case "slicec":
			if strings.HasPrefix(key, "E:"+typeKey(m.ElemT)) {
				alts = append(alts, Eq(ref, m.Ref))
			}
		case "anyslice":
			if strings.HasPrefix(key, "E:"+typeKey(m.ElemT)) {
				return TTrue
			}
		}
	}
	return Or(alts...)
}

// ---- interface method calls ----

func (x *Exec) invoke(st *State, fr *Frame, v *ssa.Call) []*State {
	c := v.Common()
	recv := x.get(fr, c.Value).(*IfaceV)
	site := x.siteName(fr, v)
	x.safety(st, fr, v, "nil-iface-call", Ne(recv.Tag, IntC(0)), recv.Tag)
	var args []Val
	for _, a := range c.Args {
		args = append(args, x.get(fr, a))
	}
	// statically known dynamic type: dispatch
	if recv.Tag.IsInt() {
		if ct := x.ld.typeByID[int(recv.Tag.I.Int64())]; ct != nil {
			if m := x.ld.prog.LookupMethod(ct, c.Method.Pkg(), c.Method.Name()); m != nil {
				rv := x.unbox(st, recv, ct)
				return x.staticCall(st, fr, v, m, append([]Val{rv}, args...), nil)
			}
		}
	}
	if fam := x.familyFor(c); fam != nil {
		x.modularCall(st, fr, v, nil, fam, args, site, recv)
		return nil
	}
	x.builtinIfaceCall(st, fr, v, recv, args, site)
	return nil
}

// builtinIfaceCall: interface methods of the standard library (error.Error, ...).
func (x *Exec) builtinIfaceCall(st *State, fr *Frame, v *ssa.Call, recv *IfaceV, args []Val, site string) {
	c := v.Common()
	name := structName(c.Value.Type()) + "." + c.Method.Name()
	switch name {
	case "error.Error":
		x.stdlibUsed["error.Error (pure, returns some string)"]++
		fr.regs[v] = UF("errtext", SStr, recv.Tag, recv.Ref)
		return
	case "os.FileInfo.IsDir", "fs.FileInfo.IsDir":
		x.stdlibUsed[name+" (pure)"]++
		fr.regs[v] = UF("isdir", SBool, recv.Ref)
		return
	case "reflect.Type.Kind":
		x.stdlibUsed[name+" (pure)"]++
		fr.regs[v] = UF("rtype.kind", SInt, recv.Ref)
		return
	case "reflect.Type.NumField":
		x.stdlibUsed[name+" (pure, >= 0)"]++
		n := UF("rtype.numfield", SInt, recv.Ref)
		st.assumeDef(Ge(n, IntC(0)))
		fr.regs[v] = n
		return
	case "reflect.Type.Field":
		x.stdlibUsed[name+" (requires 0 <= i < NumField; IsExported of the result is the exported-ness of field i)"]++
		i := x.scalar(args[0])
		x.emit(st, x.topKey+"/pre:reflect.Type.Field.range@"+site, "pre", And(Ge(i, IntC(0)), Lt(i, UF("rtype.numfield", SInt, recv.Ref))), nil)
		sf := x.freshVal(st, v.Type(), "sf")
		fr.regs[v] = sf
		st.assumeDef(Eq(UF("sfield.exported", SBool, x.scalar(sf)), UF("rfield.exported", SBool, UF("rtype.tag", SInt, recv.Ref), i)))
		return
	}
	x.havocCall(st, fr, v, "invoke "+name, site)
}

// ---- dynamic calls through func values ----

func (x *Exec) dynCall(st *State, fr *Frame, v *ssa.Call, args []Val) []*State {
	c := v.Common()
	site := x.siteName(fr, v)
	fv, ok := x.get(fr, c.Value).(*FuncV)
	if !ok {
		x.havocCall(st, fr, v, "dyncall", site)
		return nil
	}
	x.safety(st, fr, v, "nil-func-call", Ne(fv.Fn, IntC(0)), fv.Fn)
	if fv.Fn.IsInt() {
		if f := x.ld.funcByID[int(fv.Fn.I.Int64())]; f != nil {
			return x.staticCall(st, fr, v, f, args, x.ld.closureBindings[fv])
		}
	}
	if fam := x.funcTypeFamily(c.Value.Type()); fam != nil {
		// family contract for a named func type: parameters are named in the header;
		// "this" is the func value itself (env = bound receiver)
		vars := fv
		_ = vars
		x.modularCallFunc(st, fr, v, fam, fv, args, site)
		return nil
	}
	x.havocCall(st, fr, v, "dyncall "+typeKey(c.Value.Type()), site)
	return nil
}

func (x *Exec) modularCallFunc(st *State, fr *Frame, v *ssa.Call, fam *FuncContract, fv *FuncV, args []Val, site string) {
	// bind: first header param = env (bound receiver ref as pointer), rest = args
	sig := v.Common().Signature()
	vars := map[string]Val{}
	tys := map[string]types.Type{}
	for i, n := range fam.Params {
		if i == 0 {
			vars[n] = fv
			tys[n] = v.Common().Value.Type()
			continue
		}
		if i-1 < len(args) {
			vars[n] = args[i-1]
			tys[n] = sig.Params().At(i - 1).Type()
		}
	}
	x.modularCallBound(st, fr, v, fam, vars, tys, site)
}

func (x *Exec) modularCallBound(st *State, fr *Frame, v *ssa.Call, fc *FuncContract, vars map[string]Val, tys map[string]types.Type, site string) {
	pkg := fnPkg(fr.fn)
	if p := x.ld.pkgByName[fc.Pkg]; p != nil {
		pkg = p
	}
	preSnap := st.snapshot()
	preEnv := &Env{x: x, st: preSnap, vars: vars, types: tys, pkg: pkg, isPre: true, facts: st}
	x.checkClauses(st, preEnv, fc.Requires, "pre", x.topKey, site, false)
	if fc.HasMod {
		for _, m := range fc.Modifies {
			it, err := preEnv.evalModItem(m)
			if err != nil {
				x.errors = append(x.errors, fmt.Sprintf("%s: modifies %q (at call in %s): %v", fc.Where, m, x.topKey, err))
				continue
			}
			x.checkModCovered(st, fr, v, it, site)
			x.havocItem(st, it)
		}
	}
	na := Fresh("A", SInt)
	st.assume(Ge(na, st.alloc))
	st.alloc = na
	var res Val
	rt := v.Type()
	if rt != nil && !isEmptyTuple(rt) {
		res = x.freshVal(st, rt, "r!"+shortKey(fc.Key))
		fr.regs[v] = res
	}
	postEnv := &Env{x: x, st: st, vars: copyVars(vars), types: copyTypes(tys), pkg: pkg, old: preEnv, facts: st}
	if res != nil {
		if tt, ok := rt.(*types.Tuple); ok {
			for i := 0; i < tt.Len(); i++ {
				n := fmt.Sprintf("result%d", i)
				postEnv.vars[n] = res.(TupleV)[i]
				postEnv.types[n] = tt.At(i).Type()
			}
		} else {
			postEnv.vars["result"] = res
			postEnv.types["result"] = rt
		}
	}
	for _, e := range fc.Ensures {
		t, err := postEnv.evalBool(e.Expr)
		if err != nil {
			x.errors = append(x.errors, fmt.Sprintf("%s: ensures (at call in %s): %v", e.Where, x.topKey, err))
			continue
		}
		st.assume(t)
	}
}

// lexLess: a <lex b, every component of b bounded below by 0.
func lexLess(a, b []*T) *T {
	n := len(a)
	if len(b) < n {
		n = len(b)
	}
	var alts []*T
	for i := 0; i < n; i++ {
		conj := []*T{Ge(b[i], IntC(0)), Lt(a[i], b[i])}
		for j := 0; j < i; j++ {
			conj = append(conj, Eq(a[j], b[j]))
		}
		alts = append(alts, And(conj...))
	}
	return Or(alts...)
}

// staticTypeOf resolves "param.field.field" against a function's signature.
func (x *Exec) staticTypeOf(f *ssa.Function, path string) types.Type {
	if f == nil {
		return nil
	}
	segs := strings.Split(path, ".")
	var t types.Type
	for _, p := range f.Params {
		if p.Name() == segs[0] {
			t = p.Type()
		}
	}
	if t == nil {
		return nil
	}
	for _, sg := range segs[1:] {
		if pt, ok := t.Underlying().(*types.Pointer); ok {
			t = pt.Elem()
		}
		ft := fieldType(t, sg)
		if ft == nil {
			return nil
		}
		t = ft
	}
	return t
}
