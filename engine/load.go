package main

import (
	"fmt"
	"go/ast"
	"go/constant"
	"go/parser"
	"go/token"
	"go/types"
	"sort"
	"strings"

	"golang.org/x/tools/go/packages"
	"golang.org/x/tools/go/ssa"
	"golang.org/x/tools/go/ssa/ssautil"
)

type constMap struct {
	id   int
	g    *ssa.Global
	keys []*T
	vals []Val
	src  []string // printed entries (evidence)
}

type constArray struct {
	id   int
	g    *ssa.Global
	vals map[int64]*T
	n    int64
}

type Loaded struct {
	repo            string
	fset            *token.FileSet
	pkgs            []*packages.Package
	prog            *ssa.Program
	funcs           map[string]*ssa.Function
	pkgByName       map[string]*types.Package
	ppkgByName      map[string]*packages.Package
	structs         map[string]types.Type
	tagTypes        []types.Type
	typeIDs         map[string]int
	typeByID        map[int]types.Type
	funcIDs         map[*ssa.Function]int
	funcByID        map[int]*ssa.Function
	constMaps       map[*ssa.Global]*constMap
	constMapByID    map[int]*constMap
	constArrays     map[*ssa.Global]*constArray
	constArrayByID  map[int]*constArray
	closureBindings map[*FuncV][]Val
	implCache       map[string][]int
	allFuncs        []*ssa.Function
}

func Load(repo string) (*Loaded, error) {
	cfg := &packages.Config{Mode: packages.LoadAllSyntax, Dir: repo, BuildFlags: []string{"-tags=verif"}}
	pkgs, err := packages.Load(cfg, "./...")
	if err != nil {
		return nil, err
	}
	var errs []string
	packages.Visit(pkgs, nil, func(p *packages.Package) {
		for _, e := range p.Errors {
			errs = append(errs, e.Error())
		}
	})
	if len(errs) > 0 {
		return nil, fmt.Errorf("package errors: %s", strings.Join(errs, "; "))
	}
	prog, _ := ssautil.Packages(pkgs, ssa.NaiveForm|ssa.InstantiateGenerics)
	prog.Build()
	ld := &Loaded{repo: repo, fset: pkgs[0].Fset, pkgs: pkgs, prog: prog, funcs: map[string]*ssa.Function{}, pkgByName: map[string]*types.Package{}, ppkgByName: map[string]*packages.Package{},
		structs: map[string]types.Type{}, typeIDs: map[string]int{}, typeByID: map[int]types.Type{}, funcIDs: map[*ssa.Function]int{}, funcByID: map[int]*ssa.Function{},
		constMaps: map[*ssa.Global]*constMap{}, constMapByID: map[int]*constMap{}, constArrays: map[*ssa.Global]*constArray{}, constArrayByID: map[int]*constArray{},
		closureBindings: map[*FuncV][]Val{}, implCache: map[string][]int{}}
	// packages by name (module-local first, then imports)
	packages.Visit(pkgs, nil, func(p *packages.Package) {
		if p.Types == nil {
			return
		}
		if strings.HasPrefix(p.PkgPath, modulePath) {
			ld.pkgByName[p.Types.Name()] = p.Types
			ld.ppkgByName[p.Types.Name()] = p
		}
	})
	packages.Visit(pkgs, nil, func(p *packages.Package) {
		if p.Types == nil {
			return
		}
		if _, ok := ld.pkgByName[p.Types.Name()]; !ok {
			ld.pkgByName[p.Types.Name()] = p.Types
		}
	})
	// functions and struct types of the module
	for fn := range ssautil.AllFunctions(prog) {
		if !inModule(fn) || len(fn.Blocks) == 0 {
			continue
		}
		if fn.Synthetic != "" && !strings.Contains(fn.Synthetic, "package initializer") {
			continue
		}
		k := funcKey(fn)
		if old, ok := ld.funcs[k]; ok && old != fn {
			continue
		}
		ld.funcs[k] = fn
	}
	var keys []string
	for k := range ld.funcs {
		keys = append(keys, k)
	}
	sort.Strings(keys)
	// ids for all functions reachable (including synthetic wrappers) are assigned lazily but
	// deterministic ids for module functions first
	for _, k := range keys {
		ld.funcID(ld.funcs[k])
		ld.allFuncs = append(ld.allFuncs, ld.funcs[k])
	}
	var tnames []string
	tmap := map[string]types.Type{}
	for _, p := range pkgs {
		if p.Types == nil || !strings.HasPrefix(p.PkgPath, modulePath) {
			continue
		}
		sc := p.Types.Scope()
		for _, n := range sc.Names() {
			if tn, ok := sc.Lookup(n).(*types.TypeName); ok {
				t := tn.Type()
				if _, isStruct := t.Underlying().(*types.Struct); isStruct {
					ld.structs[structName(t)] = t
				}
				if _, isIface := t.Underlying().(*types.Interface); !isIface {
					for _, ct := range []types.Type{t, types.NewPointer(t)} {
						tmap[typeKey(ct)] = ct
					}
				}
			}
		}
	}
	// basic types boxed into interfaces
	for _, b := range []types.BasicKind{types.Bool, types.String, types.Int, types.Int8, types.Int16, types.Int32, types.Int64, types.Uint, types.Uint8, types.Uint16, types.Uint32, types.Uint64, types.Float32, types.Float64} {
		tmap[typeKey(types.Typ[b])] = types.Typ[b]
	}
	anyT := types.Universe.Lookup("any").Type()
	for _, ct := range []types.Type{types.NewSlice(anyT), types.NewMap(types.Typ[types.String], anyT)} {
		tmap[typeKey(ct)] = ct
	}
	for k := range tmap {
		tnames = append(tnames, k)
	}
	sort.Strings(tnames)
	for _, k := range tnames {
		ld.tagTypes = append(ld.tagTypes, tmap[k])
		ld.typeID(tmap[k])
	}
	ld.findConstTables()
	return ld, nil
}

func (ld *Loaded) typeID(t types.Type) int {
	k := typeKey(t)
	if id, ok := ld.typeIDs[k]; ok {
		return id
	}
	id := len(ld.typeIDs) + 1
	ld.typeIDs[k] = id
	ld.typeByID[id] = t
	return id
}

func (ld *Loaded) funcID(f *ssa.Function) int {
	if id, ok := ld.funcIDs[f]; ok {
		return id
	}
	id := len(ld.funcIDs) + 1
	ld.funcIDs[f] = id
	ld.funcByID[id] = f
	return id
}

func (ld *Loaded) universe(name string) types.Type {
	if o := types.Universe.Lookup(name); o != nil {
		return o.Type()
	}
	return types.Typ[types.Int]
}

func (ld *Loaded) anyType() types.Type { return types.Universe.Lookup("any").Type() }

func (ld *Loaded) resolveTypeString(pkg, s string) types.Type {
	s = strings.TrimSpace(s)
	if s == "" {
		return nil
	}
	ex, err := parser.ParseExpr(s)
	if err != nil {
		return nil
	}
	return ld.resolveTypeExpr(ld.pkgByName[pkg], ex)
}

func (ld *Loaded) resolveTypeExpr(pkg *types.Package, ex ast.Expr) types.Type {
	switch n := ex.(type) {
	case *ast.Ident:
		if o := types.Universe.Lookup(n.Name); o != nil {
			if tn, ok := o.(*types.TypeName); ok {
				return tn.Type()
			}
		}
		if pkg != nil {
			if tn, ok := pkg.Scope().Lookup(n.Name).(*types.TypeName); ok {
				return tn.Type()
			}
		}
		// search all module packages
		for _, p := range ld.pkgByName {
			if strings.HasPrefix(p.Path(), modulePath) {
				if tn, ok := p.Scope().Lookup(n.Name).(*types.TypeName); ok {
					return tn.Type()
				}
			}
		}
	case *ast.SelectorExpr:
		if id, ok := n.X.(*ast.Ident); ok {
			if p := ld.pkgByName[id.Name]; p != nil {
				if tn, ok := p.Scope().Lookup(n.Sel.Name).(*types.TypeName); ok {
					return tn.Type()
				}
			}
		}
	case *ast.StarExpr:
		if t := ld.resolveTypeExpr(pkg, n.X); t != nil {
			return types.NewPointer(t)
		}
	case *ast.ArrayType:
		if n.Len == nil {
			if t := ld.resolveTypeExpr(pkg, n.Elt); t != nil {
				return types.NewSlice(t)
			}
		}
	case *ast.MapType:
		k := ld.resolveTypeExpr(pkg, n.Key)
		v := ld.resolveTypeExpr(pkg, n.Value)
		if k != nil && v != nil {
			return types.NewMap(k, v)
		}
	case *ast.ParenExpr:
		return ld.resolveTypeExpr(pkg, n.X)
	case *ast.InterfaceType:
		return ld.anyType()
	}
	return nil
}

// findConstTables reads package-level map/array literals with constant keys and values
// from the syntax of the working tree. A table is accepted only if nothing in the module
// ever stores into it.
func (ld *Loaded) findConstTables() {
	written := map[*ssa.Global]bool{}
	for _, f := range ld.allFuncs {
		for _, b := range f.Blocks {
			for _, in := range b.Instrs {
				switch v := in.(type) {
				case *ssa.MapUpdate:
					if g := rootGlobal(v.Map); g != nil && f.Name() != "init" {
						written[g] = true
					}
				case *ssa.Store:
					if g, ok := v.Addr.(*ssa.Global); ok && f.Name() != "init" {
						written[g] = true
					}
					if ia, ok := v.Addr.(*ssa.IndexAddr); ok {
						if g, ok := ia.X.(*ssa.Global); ok && f.Name() != "init" {
							written[g] = true
						}
					}
				case ssa.CallInstruction:
					// delete(m, k)
					if b, ok := v.Common().Value.(*ssa.Builtin); ok && b.Name() == "delete" {
						if g := rootGlobal(v.Common().Args[0]); g != nil {
							written[g] = true
						}
					}
				}
			}
		}
	}
	id := 0
	var names []string
	for n := range ld.ppkgByName {
		names = append(names, n)
	}
	sort.Strings(names)
	for _, pn := range names {
		p := ld.ppkgByName[pn]
		sp := ld.prog.Package(p.Types)
		if sp == nil {
			continue
		}
		for _, file := range p.Syntax {
			for _, d := range file.Decls {
				gd, ok := d.(*ast.GenDecl)
				if !ok || gd.Tok != token.VAR {
					continue
				}
				for _, spec := range gd.Specs {
					vs := spec.(*ast.ValueSpec)
					if len(vs.Names) != 1 || len(vs.Values) != 1 {
						continue
					}
					cl, ok := vs.Values[0].(*ast.CompositeLit)
					if !ok {
						continue
					}
					g, ok := sp.Members[vs.Names[0].Name].(*ssa.Global)
					if !ok || written[g] {
						continue
					}
					t := p.TypesInfo.TypeOf(cl)
					switch u := t.Underlying().(type) {
					case *types.Map:
						cm := &constMap{id: id, g: g}
						okAll := true
						for _, el := range cl.Elts {
							kv, ok := el.(*ast.KeyValueExpr)
							if !ok {
								okAll = false
								break
							}
							kc := p.TypesInfo.Types[kv.Key].Value
							vc := p.TypesInfo.Types[kv.Value].Value
							if kc == nil || vc == nil {
								okAll = false
								break
							}
							cm.keys = append(cm.keys, constTerm(kc))
							cm.vals = append(cm.vals, Val(constTerm(vc)))
							cm.src = append(cm.src, types.ExprString(kv.Key)+": "+types.ExprString(kv.Value))
						}
						_ = u
						if okAll {
							ld.constMaps[g] = cm
							ld.constMapByID[id] = cm
							id++
						}
					case *types.Array:
						ca := &constArray{id: id, g: g, vals: map[int64]*T{}, n: u.Len()}
						okAll := true
						next := int64(0)
						for _, el := range cl.Elts {
							var ve ast.Expr = el
							if kv, ok := el.(*ast.KeyValueExpr); ok {
								kc := p.TypesInfo.Types[kv.Key].Value
								if kc == nil {
									okAll = false
									break
								}
								next, _ = constant.Int64Val(kc)
								ve = kv.Value
							}
							vc := p.TypesInfo.Types[ve].Value
							if vc == nil {
								okAll = false
								break
							}
							ca.vals[next] = constTerm(vc)
							next++
						}
						if okAll {
							ld.constArrays[g] = ca
							ld.constArrayByID[id] = ca
							id++
						}
					}
				}
			}
		}
	}
}

func rootGlobal(v ssa.Value) *ssa.Global {
	switch x := v.(type) {
	case *ssa.UnOp:
		if g, ok := x.X.(*ssa.Global); ok {
			return g
		}
	case *ssa.Global:
		return x
	}
	return nil
}

func constTerm(c constant.Value) *T {
	switch c.Kind() {
	case constant.Bool:
		return BoolC(constant.BoolVal(c))
	case constant.String:
		return StrLit(constant.StringVal(c))
	case constant.Int:
		i, _ := constant.Int64Val(c)
		return IntC(i)
	}
	panic("constTerm: unsupported constant kind")
}
