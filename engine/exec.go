package main

// Forward symbolic execution of go/ssa (NaiveForm) functions, path by path. Loops of the
// function under verification are cut at their heads with the contract's invariants;
// calls are replaced by callee contracts (or inlined when the callee has none).

import (
	"fmt"
	"go/constant"
	"go/token"
	"go/types"
	"math/big"
	"os"
	"regexp"
	"sort"
	"strings"

	"golang.org/x/tools/go/ssa"
)

var maxInt64 = new(big.Int).SetUint64(9223372036854775807)

type Frame struct {
	fn         *ssa.Function
	regs       map[ssa.Value]Val
	cells      map[*ssa.Alloc]*cell
	block      *ssa.BasicBlock
	prev       *ssa.BasicBlock
	pc         int
	visits     map[int]int
	variants   map[int][]*T // loop index -> variant at the head
	heads      map[int]*Env // loop index -> environment at the last visit of the head
	binds      map[string]Val
	implSlices map[int][]*cell
	zeroOff    map[int][]*cell
	bindTypes  map[string]types.Type
	call       ssa.CallInstruction // call site in the parent frame (inlined frames)
	site       string              // obligation name prefix for inlined code
	wrap64     bool
	callCount  map[string]int
}

type State struct {
	frames    []*Frame
	cellVals  map[*cell]Val
	heap      map[string]*T
	facts     []*T
	alloc     *T
	alloc0    *T
	pre       *State
	events    []string // havoc events that may affect heap arrays not yet materialised ("*" or key prefix)
	dead      bool
	depth     int
	nonnil    map[string]bool
	iters     []iterState
	unfilled  []unfilledSlice
	pending   []pendingInit
	instTerms []*T // terms at which quantified facts are instantiated by hand (slice indices, map keys)
}

type pendingInit struct {
	ref   *T
	field string
}

type iterState struct {
	rng     *ssa.Range
	visited *T
	pos     *T // string ranges: byte offset of the next rune (nil for map ranges)
}

func (st *State) top() *Frame { return st.frames[len(st.frames)-1] }

func (st *State) assume(f *T) {
	if f.IsTrue() {
		return
	}
	if f.IsFalse() {
		st.dead = true
	}
	st.facts = append(st.facts, f)
}

func (st *State) assumeDef(f *T) { st.facts = append(st.facts, f) }

func (st *State) cellGet(c *cell) Val {
	v, ok := st.cellVals[c]
	if !ok {
		panic("cell read before write: " + c.name)
	}
	return v
}

func (st *State) cellSet(c *cell, v Val) { st.cellVals[c] = v }

func (st *State) clone() *State {
	n := &State{alloc: st.alloc, alloc0: st.alloc0, pre: st.pre, events: append([]string(nil), st.events...), depth: st.depth}
	n.iters = append([]iterState(nil), st.iters...)
	n.unfilled = append([]unfilledSlice(nil), st.unfilled...)
	n.pending = append([]pendingInit(nil), st.pending...)
	n.instTerms = append([]*T(nil), st.instTerms...)
	n.nonnil = make(map[string]bool, len(st.nonnil))
	for k := range st.nonnil {
		n.nonnil[k] = true
	}
	n.cellVals = make(map[*cell]Val, len(st.cellVals))
	for k, v := range st.cellVals {
		n.cellVals[k] = v
	}
	n.heap = make(map[string]*T, len(st.heap))
	for k, v := range st.heap {
		n.heap[k] = v
	}
	n.facts = append([]*T(nil), st.facts...)
	for _, f := range st.frames {
		nf := *f
		nf.regs = make(map[ssa.Value]Val, len(f.regs))
		for k, v := range f.regs {
			nf.regs[k] = v
		}
		nf.cells = make(map[*ssa.Alloc]*cell, len(f.cells))
		for k, v := range f.cells {
			nf.cells[k] = v
		}
		nf.visits = make(map[int]int, len(f.visits))
		for k, v := range f.visits {
			nf.visits[k] = v
		}
		nf.variants = make(map[int][]*T, len(f.variants))
		for k, v := range f.variants {
			nf.variants[k] = v
		}
		nf.binds = make(map[string]Val, len(f.binds))
		for k, v := range f.binds {
			nf.binds[k] = v
		}
		nf.bindTypes = f.bindTypes
		nf.heads = make(map[int]*Env, len(f.heads))
		for k, v := range f.heads {
			nf.heads[k] = v
		}
		nf.callCount = make(map[string]int, len(f.callCount))
		for k, v := range f.callCount {
			nf.callCount[k] = v
		}
		n.frames = append(n.frames, &nf)
	}
	return n
}

// snapshot copies what old(...) needs: heap and cell values.
func (st *State) snapshot() *State {
	n := &State{alloc: st.alloc, alloc0: st.alloc0, pre: st.pre, events: append([]string(nil), st.events...)}
	n.heap = make(map[string]*T, len(st.heap))
	for k, v := range st.heap {
		n.heap[k] = v
	}
	n.cellVals = make(map[*cell]Val, len(st.cellVals))
	for k, v := range st.cellVals {
		n.cellVals[k] = v
	}
	n.facts = nil
	return n
}

type ghostLeaf struct {
	name string
	sort Sort
	typ  types.Type
}

type loopInfo struct {
	head  *ssa.BasicBlock
	body  map[int]bool // block indices (including head)
	index int
	cells map[*ssa.Alloc]bool
	keys  map[string]bool // heap keys possibly written in the loop; "*" = everything
	pos   token.Pos
}

type ModItem struct {
	Kind   string // field, allfields, mapc, slicec, global, all
	Ref    *T
	Owner  types.Type
	Path   string
	MapT   types.Type
	ElemT  types.Type
	Global *ssa.Global
	Text   string
}

type Oblig struct {
	Name  string
	Func  string
	Kind  string
	Query *Query
	Cover bool
}

type Exec struct {
	famMembers  map[*ssa.Function][]famMember
	keyOverride string
	ld          *Loaded
	cs          *Contracts
	leafCache   map[string][]leaf
	ghostFields map[string][]ghostLeaf
	curWrap64   bool
	warnings    map[string]int
	obligs      []*Oblig
	trivial     map[string]int // obligations discharged by the simplifier, per name
	havocCalls  map[string]int
	inlined     map[string]int
	stdlibUsed  map[string]int
	// current top-level verification context
	top        *ssa.Function
	topC       *FuncContract
	topKey     string
	loops      []*loopInfo
	loopAt     map[int]*loopInfo // head block index -> loop
	mods       []ModItem
	checkMods  bool
	preEnv     *Env
	nameCount  map[string]int
	pathCount  int
	retCount   int
	maxPaths   int
	errors     []string
	kinds      map[string]bool // obligation kinds to generate (nil = all)
	autoAxioms []string
	effCache   map[string]*FuncContract
	nnElems    map[string]bool // element types whose slices never hold nil
	nnValues   map[string]bool // map types whose values are never nil
	nnFields   map[string]bool // "pkg.Struct.field" never nil
	nnBoxed    map[string]bool // interface types that never box a nil pointer
}

func NewExec(ld *Loaded, cs *Contracts) *Exec {
	x := &Exec{ld: ld, cs: cs, leafCache: map[string][]leaf{}, ghostFields: map[string][]ghostLeaf{}, warnings: map[string]int{},
		effCache: map[string]*FuncContract{}, trivial: map[string]int{}, havocCalls: map[string]int{}, inlined: map[string]int{}, stdlibUsed: map[string]int{}, maxPaths: 4000}
	for _, g := range cs.Ghosts {
		t := ld.resolveTypeString(g.Pkg, g.Type)
		if t == nil {
			x.errors = append(x.errors, "ghost field type not found: "+g.Type)
			continue
		}
		ls := x.leaves(t)
		if len(ls) != 1 {
			x.errors = append(x.errors, "ghost field must be scalar: "+g.Field)
			continue
		}
		key := g.Pkg + "." + g.Struct
		x.ghostFields[key] = append(x.ghostFields[key], ghostLeaf{g.Field, ls[0].sort, t})
	}
	x.leafCache = map[string][]leaf{}
	x.nnElems, x.nnValues, x.nnFields, x.nnBoxed = map[string]bool{}, map[string]bool{}, map[string]bool{}, map[string]bool{}
	for _, d := range cs.NonNil {
		switch d.Kind {
		case "elems":
			t := ld.resolveTypeString(d.Pkg, d.What)
			if sl, ok := t.(*types.Slice); ok {
				x.nnElems[typeKey(sl.Elem())] = true
			} else {
				x.errors = append(x.errors, d.Where+": nonnil elems needs a slice type")
			}
		case "values":
			t := ld.resolveTypeString(d.Pkg, d.What)
			if t == nil {
				x.errors = append(x.errors, d.Where+": nonnil values: unknown type")
			} else {
				x.nnValues[typeKey(t)] = true
			}
		case "field":
			x.nnFields[d.What] = true
		case "boxed":
			t := ld.resolveTypeString(d.Pkg, d.What)
			if t == nil {
				x.errors = append(x.errors, d.Where+": nonnil boxed: unknown type")
			} else {
				x.nnBoxed[typeKey(t)] = true
			}
		}
	}
	return x
}

func nonNilVal(v Val) *T {
	switch t := v.(type) {
	case *IfaceV:
		return Ne(t.Tag, IntC(0))
	case *PtrV:
		if t.Kind == PObj {
			return Ne(t.Ref, IntC(0))
		}
		return TTrue
	case *T:
		if t.Sort == SInt {
			return Ne(t, IntC(0))
		}
	case *FuncV:
		return Ne(t.Fn, IntC(0))
	}
	return TTrue
}

type unfilledSlice struct {
	base, n *T
	elemT   types.Type
}

func (x *Exec) warn(format string, a ...any) {
	x.warnings[fmt.Sprintf(format, a...)]++
}

func funcKey(f *ssa.Function) string {
	pkg := ""
	if f.Pkg != nil {
		pkg = f.Pkg.Pkg.Name()
	} else if f.Object() != nil && f.Object().Pkg() != nil {
		pkg = f.Object().Pkg().Name()
	}
	if f.Signature.Recv() != nil {
		rt := f.Signature.Recv().Type()
		if p, ok := rt.(*types.Pointer); ok {
			rt = p.Elem()
		}
		if n, ok := rt.(*types.Named); ok {
			if pkg == "" && n.Obj().Pkg() != nil {
				pkg = n.Obj().Pkg().Name()
			}
			return pkg + "." + n.Obj().Name() + "." + f.Name()
		}
	}
	if f.Parent() != nil {
		// closures: pkg.parent$N (go/ssa already names them parent$N)
		pp := f.Parent()
		for pp.Parent() != nil {
			pp = pp.Parent()
		}
		if pp.Pkg != nil {
			return pp.Pkg.Pkg.Name() + "." + f.Name()
		}
		return funcKey(f.Parent()) + "$" + f.Name()
	}
	return pkg + "." + f.Name()
}

// fnPkg: the types package a function belongs to (synthetic wrappers have no ssa package)
func fnPkg(f *ssa.Function) *types.Package {
	if f.Pkg != nil {
		return f.Pkg.Pkg
	}
	if f.Object() != nil {
		return f.Object().Pkg()
	}
	if f.Parent() != nil {
		return fnPkg(f.Parent())
	}
	return nil
}

func inModule(f *ssa.Function) bool {
	var p *types.Package
	if f.Pkg != nil {
		p = f.Pkg.Pkg
	} else if f.Object() != nil {
		p = f.Object().Pkg()
	} else if f.Parent() != nil {
		return inModule(f.Parent())
	}
	return p != nil && strings.HasPrefix(p.Path(), modulePath)
}

// ---- loop analysis ----

func (x *Exec) analyzeLoops(f *ssa.Function) {
	x.loops = nil
	x.loopAt = map[int]*loopInfo{}
	if len(f.Blocks) == 0 {
		return
	}
	for _, b := range f.Blocks {
		for _, p := range b.Preds {
			if b.Dominates(p) {
				li := x.loopAt[b.Index]
				if li == nil {
					li = &loopInfo{head: b, body: map[int]bool{b.Index: true}, cells: map[*ssa.Alloc]bool{}, keys: map[string]bool{}}
					x.loopAt[b.Index] = li
					x.loops = append(x.loops, li)
				}
				// natural loop of back-edge p -> b
				stack := []*ssa.BasicBlock{p}
				for len(stack) > 0 {
					n := stack[len(stack)-1]
					stack = stack[:len(stack)-1]
					if li.body[n.Index] {
						continue
					}
					li.body[n.Index] = true
					stack = append(stack, n.Preds...)
				}
			}
		}
	}
	for _, li := range x.loops {
		li.pos = token.NoPos
		for idx := range li.body {
			for _, in := range f.Blocks[idx].Instrs {
				if p := in.Pos(); p.IsValid() && (li.pos == token.NoPos || p < li.pos) {
					li.pos = p
				}
			}
		}
	}
	sort.Slice(x.loops, func(i, j int) bool { return x.loops[i].pos < x.loops[j].pos })
	for i, li := range x.loops {
		li.index = i
		seen := map[*ssa.Function]bool{}
		for idx := range li.body {
			x.scanWrites(f.Blocks[idx].Instrs, li, seen, 0)
		}
	}
}

// scanWrites collects, syntactically, the cells and heap keys an instruction list may write.
func (x *Exec) scanWrites(instrs []ssa.Instruction, li *loopInfo, seen map[*ssa.Function]bool, depth int) {
	for _, in := range instrs {
		switch v := in.(type) {
		case *ssa.Store:
			x.scanAddr(v.Addr, li)
		case *ssa.MapUpdate:
			mt := v.Map.Type()
			li.keys["MD:"+typeKey(mt)] = true
			li.keys["MV:"+typeKey(mt)] = true
		case ssa.CallInstruction:
			c := v.Common()
			if c.IsInvoke() {
				fam := x.familyFor(c)
				if fam != nil && fam.HasMod {
					x.modKeys(fam, li)
				} else if fam != nil && !fam.HasMod {
					// contract without modifies: modifies nothing
				} else {
					li.keys["*"] = true
				}
				continue
			}
			if b, ok := c.Value.(*ssa.Builtin); ok {
				if b.Name() == "append" || b.Name() == "copy" {
					if st, ok := c.Args[0].Type().Underlying().(*types.Slice); ok {
						li.keys["E:"+typeKey(st.Elem())] = true
					}
				}
				if b.Name() == "delete" {
					mt := c.Args[0].Type()
					li.keys["MD:"+typeKey(mt)] = true
				}
				continue
			}
			callee := c.StaticCallee()
			if callee == nil {
				// dynamic call through a func value
				if fam := x.funcTypeFamily(c.Value.Type()); fam != nil && !fam.HasMod {
					continue
				} else if fam != nil {
					x.modKeys(fam, li)
					continue
				}
				li.keys["*"] = true
				continue
			}
			if fc := x.contractFor(callee); fc != nil && !fc.Inline {
				if !fc.HasMod && !fc.HasTrustedMod {
					continue
				}
				x.modKeys(fc, li)
				continue
			}
			if !inModule(callee) || len(callee.Blocks) == 0 {
				x.stdlibWrites(callee, c, li)
				continue
			}
			if seen[callee] {
				continue // already accounted for
			}
			if depth > 8 {
				li.keys["*"] = true
				continue
			}
			seen[callee] = true
			for _, b := range callee.Blocks {
				x.scanWrites(b.Instrs, li, seen, depth+1)
			}
		}
	}
}

func (x *Exec) modKeys(fc *FuncContract, li *loopInfo) {
	ms := fc.Modifies
	if fc.HasTrustedMod {
		ms = fc.TrustedMod
	}
	for _, m := range ms {
		li.keys["mod:"+fc.Key+":"+m] = true
	}
}

func (x *Exec) scanAddr(a ssa.Value, li *loopInfo) {
	switch v := a.(type) {
	case *ssa.Alloc:
		if v.Heap {
			li.keys["C:"+typeKey(v.Type().(*types.Pointer).Elem())] = true
			li.keys["F:"+structName(v.Type().(*types.Pointer).Elem())+"."] = true
		} else {
			li.cells[v] = true
		}
	case *ssa.FieldAddr:
		// find the root struct and path
		path := ""
		cur := ssa.Value(v)
		for {
			fa, ok := cur.(*ssa.FieldAddr)
			if !ok {
				break
			}
			st := fa.X.Type().Underlying().(*types.Pointer).Elem().Underlying().(*types.Struct)
			path = joinPath(st.Field(fa.Field).Name(), path)
			cur = fa.X
		}
		if al, ok := cur.(*ssa.Alloc); ok && !al.Heap {
			li.cells[al] = true
			return
		}
		if ia, ok := cur.(*ssa.IndexAddr); ok {
			if st, ok := ia.X.Type().Underlying().(*types.Slice); ok {
				li.keys["E:"+typeKey(st.Elem())] = true
				return
			}
		}
		owner := cur.Type().Underlying().(*types.Pointer).Elem()
		li.keys["F:"+structName(owner)+"."+path] = true
	case *ssa.IndexAddr:
		if st, ok := v.X.Type().Underlying().(*types.Slice); ok {
			li.keys["E:"+typeKey(st.Elem())] = true
		} else if pt, ok := v.X.Type().Underlying().(*types.Pointer); ok {
			if at, ok := pt.Elem().Underlying().(*types.Array); ok {
				li.keys["E:"+typeKey(at.Elem())] = true
			} else {
				li.keys["*"] = true
			}
		} else {
			li.keys["*"] = true
		}
	case *ssa.Global:
		li.keys["G:"+v.Pkg.Pkg.Name()+"."+v.Name()] = true
	default:
		// store through a loaded pointer (*p = v)
		if pt, ok := a.Type().Underlying().(*types.Pointer); ok {
			if _, isStruct := pt.Elem().Underlying().(*types.Struct); isStruct && !isOpaqueStruct(pt.Elem()) {
				li.keys["F:"+structName(pt.Elem())+"."] = true
			} else {
				li.keys["C:"+typeKey(pt.Elem())] = true
			}
			return
		}
		li.keys["*"] = true
	}
}

// ---- obligations ----

func (x *Exec) obName(fr *Frame, kind, label string) string {
	site := ""
	if fr != nil && fr.site != "" {
		site = fr.site
	}
	n := x.topKey + "/" + kind
	if label != "" {
		n += ":" + label
	}
	if site != "" {
		n += "@" + site
	}
	return n
}

func (x *Exec) emit(st *State, name, kind string, goal *T, vals []*T) {
	if st.dead {
		return
	}
	if x.kinds != nil && !x.kinds[kind] {
		st.assume(goal)
		return
	}
	if goal.IsTrue() {
		x.trivial[name]++
		return
	}
	// universally quantified goals are proved for fresh constants, at which the quantified
	// facts are then instantiated by hand
	terms := st.instTerms
	if containsForall(goal) {
		var sk []*T
		goal, sk = skolemizeGoal(goal)
		if len(sk) > 0 {
			terms = append(append([]*T(nil), st.instTerms...), sk...)
		}
	}
	if containsForall(goal) && len(terms) > 0 {
		goal = instRewrite(goal, terms)
	}
	q := &Query{Name: name, Facts: instantiateFacts(st.facts, terms), Goal: goal, Vals: vals, Axioms: x.autoAxioms}
	x.obligs = append(x.obligs, &Oblig{Name: name, Func: x.topKey, Kind: kind, Query: q})
	if kind != "frame" {
		st.assume(goal)
	}
}

func (x *Exec) emitCover(st *State, name string) {
	if st.dead {
		return
	}
	q := &Query{Name: name, Facts: coverFacts(st.facts, st.instTerms), Cover: true, Axioms: x.autoAxioms}
	x.obligs = append(x.obligs, &Oblig{Name: name, Func: x.topKey, Kind: "cover", Query: q, Cover: true})
}

// ordinal names: kind + description + running number per function
func (x *Exec) ord(fr *Frame, desc string) string {
	// ordinal is assigned per *static instruction*, so that every path uses the same name
	return desc
}

// ---- instruction ordinal table (static, per function) ----

type siteTable struct {
	names map[ssa.Instruction]string
}

var siteCache = map[*ssa.Function]*siteTable{}

func describeInstr(in ssa.Instruction) string {
	switch v := in.(type) {
	case *ssa.FieldAddr:
		st := v.X.Type().Underlying().(*types.Pointer).Elem().Underlying().(*types.Struct)
		return "field." + st.Field(v.Field).Name()
	case *ssa.IndexAddr:
		return "index"
	case *ssa.Index:
		if b, ok := v.X.Type().Underlying().(*types.Basic); ok && b.Info()&types.IsString != 0 {
			return "strindex"
		}
		return "index"
	case *ssa.Lookup:
		if _, ok := v.X.Type().Underlying().(*types.Map); ok {
			return "maplookup"
		}
		return "strindex"
	case *ssa.Slice:
		return "slice"
	case *ssa.TypeAssert:
		return "assert." + shortType(v.AssertedType)
	case *ssa.BinOp:
		switch v.Op {
		case token.QUO:
			return "quo"
		case token.REM:
			return "rem"
		case token.SHL, token.SHR:
			return "shift"
		}
		return "binop"
	case *ssa.UnOp:
		if v.Op == token.MUL {
			return "load"
		}
		return "unop"
	case *ssa.Store:
		return "store"
	case *ssa.MapUpdate:
		return "mapupdate"
	case *ssa.Panic:
		return "panic"
	case *ssa.MakeSlice:
		return "makeslice"
	case ssa.CallInstruction:
		c := v.Common()
		if c.IsInvoke() {
			return c.Method.Name()
		}
		if b, ok := c.Value.(*ssa.Builtin); ok {
			return b.Name()
		}
		if f := c.StaticCallee(); f != nil {
			return shortFuncName(f)
		}
		return "dyncall"
	case *ssa.Return:
		return "ret"
	}
	return fmt.Sprintf("%T", in)
}

func shortType(t types.Type) string {
	s := typeKey(t)
	s = strings.ReplaceAll(s, "*", "")
	return s
}

func shortFuncName(f *ssa.Function) string {
	k := funcKey(f)
	// drop package for module-local functions with receivers: pkg.Recv.name -> name ; stdlib: keep pkg.Recv.name
	if inModule(f) {
		parts := strings.Split(k, ".")
		return parts[len(parts)-1]
	}
	return k
}

func sites(f *ssa.Function) *siteTable {
	if t, ok := siteCache[f]; ok {
		return t
	}
	t := &siteTable{names: map[ssa.Instruction]string{}}
	counts := map[string]int{}
	// source order: sort instructions by position, fall back to block order
	type ent struct {
		in  ssa.Instruction
		ord int
		pos token.Pos // own position, or the last valid position seen before it (total order)
	}
	var all []ent
	n := 0
	for _, b := range f.Blocks {
		last := token.NoPos
		for _, in := range b.Instrs {
			p := in.Pos()
			if p.IsValid() {
				last = p
			} else {
				p = last
			}
			all = append(all, ent{in, n, p})
			n++
		}
	}
	sort.SliceStable(all, func(i, j int) bool {
		if all[i].pos != all[j].pos {
			return all[i].pos < all[j].pos
		}
		return all[i].ord < all[j].ord
	})
	for _, e := range all {
		d := describeInstr(e.in)
		t.names[e.in] = fmt.Sprintf("%s#%d", d, counts[d])
		counts[d]++
	}
	siteCache[f] = t
	return t
}

func (x *Exec) siteName(fr *Frame, in ssa.Instruction) string {
	s := sites(fr.fn).names[in]
	if fr.site != "" {
		return fr.site + "." + s
	}
	return s
}

func (x *Exec) safety(st *State, fr *Frame, in ssa.Instruction, what string, goal *T, vals ...*T) {
	if what == "nil-deref" && len(vals) == 1 {
		k := vals[0].String()
		if st.nonnil[k] {
			return
		}
		defer func() { st.nonnil[k] = true }()
	}
	if x.topC != nil && x.topC.NoSafety {
		st.assume(goal)
		return
	}
	name := x.topKey + "/safety:" + what + "@" + x.siteName(fr, in)
	x.emit(st, name, "safety", goal, vals)
}

// ---- running a function ----

func (x *Exec) newFrame(f *ssa.Function) *Frame {
	return &Frame{fn: f, regs: map[ssa.Value]Val{}, cells: map[*ssa.Alloc]*cell{}, visits: map[int]int{}, variants: map[int][]*T{}, heads: map[int]*Env{}, callCount: map[string]int{}}
}

var cellCtr int

func (x *Exec) newCell(name string, t types.Type) *cell {
	cellCtr++
	return &cell{name: name, typ: t, id: cellCtr}
}

// Verify generates all obligations for f under its contract.
func (x *Exec) Verify(f *ssa.Function, c *FuncContract) {
	defer func() {
		if r := recover(); r != nil {
			x.errors = append(x.errors, fmt.Sprintf("%s: engine panic: %v", funcKey(f), r))
			if os.Getenv("TWV_DEBUG") != "" {
				panic(r)
			}
		}
	}()
	x.top = f
	x.topC = c
	x.topKey = funcKey(f)
	if x.keyOverride != "" {
		x.topKey = x.keyOverride
	}
	x.analyzeLoops(f)
	x.checkClauseSites(f, c)
	x.pathCount = 0
	x.retCount = 0
	x.curWrap64 = c != nil && c.Wrap64

	st := &State{cellVals: map[*cell]Val{}, heap: map[string]*T{}, nonnil: map[string]bool{}}
	st.alloc0 = Sym("A0", SInt)
	st.alloc = st.alloc0
	st.assume(Gt(st.alloc0, IntC(0)))
	pre := &State{cellVals: map[*cell]Val{}, heap: map[string]*T{}, alloc: st.alloc0, alloc0: st.alloc0}
	st.pre = pre
	fr := x.newFrame(f)
	fr.wrap64 = x.curWrap64
	fr.block = f.Blocks[0]
	st.frames = []*Frame{fr}
	params := map[string]Val{}
	ptypes := map[string]types.Type{}
	for i, p := range f.Params {
		v := x.namedVal(st, p.Type(), p.Name())
		fr.regs[p] = v
		params[p.Name()] = v
		ptypes[p.Name()] = p.Type()
		if i == 0 && f.Signature.Recv() != nil {
			if _, ok := p.Type().Underlying().(*types.Pointer); ok {
				st.assume(Ne(x.ptrRef(v), IntC(0)))
				st.nonnil[x.ptrRef(v).String()] = true
			}
			// family contracts call the receiver "this" (as the interface value)
			params["this"] = x.makeIface(st, v, p.Type())
			ptypes["this"] = x.ld.anyType()
		}
	}
	for _, fv := range f.FreeVars {
		v := x.freshVal(st, fv.Type(), "fv!"+fv.Name())
		fr.regs[fv] = v
		// captured variables are visible to the contract as free_<name> (the pointer to the variable)
		params["free_"+fv.Name()] = v
		ptypes["free_"+fv.Name()] = fv.Type()
	}
	x.preEnv = &Env{x: x, st: pre, vars: params, types: ptypes, pkg: fnPkg(f), isPre: true, facts: st}
	// program-wide invariants of package-level variables (established by package
	// initialisation, preserved because no verified frame allows writing them)
	if f.Name() != "init" {
		for _, gi := range x.cs.GlobalInvs {
			ge := &Env{x: x, st: pre, vars: map[string]Val{}, types: map[string]types.Type{}, pkg: x.ld.pkgByName[gi.Label], isPre: true, facts: st}
			t, err := ge.evalBool(gi.Expr)
			if err != nil {
				x.errors = append(x.errors, fmt.Sprintf("%s: globalinv: %v", gi.Where, err))
				continue
			}
			st.assume(t)
		}
	}
	// modifies
	x.mods = nil
	x.checkMods = false
	if c != nil {
		if c.HasMod {
			x.checkMods = true
			for _, m := range c.Modifies {
				it, err := x.preEnv.evalModItem(m)
				if err != nil {
					x.errors = append(x.errors, fmt.Sprintf("%s: modifies %q: %v", c.Where, m, err))
					continue
				}
				x.mods = append(x.mods, it)
			}
		}
		for _, r := range c.Requires {
			t, err := x.preEnv.evalBool(r.Expr)
			if err != nil {
				x.errors = append(x.errors, fmt.Sprintf("%s: requires: %v", r.Where, err))
				continue
			}
			st.assume(t)
		}
		for _, u := range c.Uses {
			t, err := x.preEnv.evalUse(u.Expr)
			if err != nil {
				x.errors = append(x.errors, fmt.Sprintf("%s: use: %v", u.Where, err))
				continue
			}
			st.assumeUse(t)
		}
	}
	// named locals declared inside loop bodies resolve to an unconstrained value until
	// their declaration runs (so that invariants may mention them under a guard)
	for _, b := range f.Blocks {
		for _, in := range b.Instrs {
			if al, ok := in.(*ssa.Alloc); ok && !al.Heap && al.Comment != "" && b.Index != 0 {
				t := al.Type().(*types.Pointer).Elem()
				c := x.newCell(al.Comment, t)
				fr.cells[al] = c
				st.cellSet(c, x.freshVal(st, t, "undecl!"+al.Comment))
			}
		}
	}
	// contract variables bound to call results: unconstrained until the call happens
	fr.binds = map[string]Val{}
	fr.bindTypes = map[string]types.Type{}
	if c != nil && len(c.CallBinds) > 0 {
		tbl := sites(f)
		for in, name := range tbl.names {
			if bn, ok := c.CallBinds[name]; ok {
				if cv, ok := in.(*ssa.Call); ok && cv.Type() != nil && !isEmptyTuple(cv.Type()) {
					fr.binds[bn] = x.freshVal(st, cv.Type(), "unbound!"+bn)
					fr.bindTypes[bn] = cv.Type()
				}
			}
		}
	}
	x.emitCover(st, x.topKey+"/cover:pre")
	x.run(st)
}

func (x *Exec) run(init *State) {
	work := []*State{init}
	for len(work) > 0 {
		st := work[len(work)-1]
		work = work[:len(work)-1]
		for !st.dead && len(st.frames) > 0 {
			forks := x.step(st)
			if len(forks) > 0 {
				work = append(work, forks...)
			}
			if x.pathCount > x.maxPaths {
				x.errors = append(x.errors, fmt.Sprintf("%s: path limit exceeded (%d)", x.topKey, x.maxPaths))
				return
			}
		}
		x.pathCount++
	}
}

func (x *Exec) get(fr *Frame, v ssa.Value) Val {
	switch c := v.(type) {
	case *ssa.Const:
		return x.constVal(c)
	case *ssa.Global:
		return &PtrV{Kind: PGlobal, Global: c, Typ: c.Type().(*types.Pointer).Elem()}
	case *ssa.Function:
		return &FuncV{Fn: IntC(int64(x.ld.funcID(c))), Env: IntC(0)}
	case *ssa.Builtin:
		return nil
	}
	r, ok := fr.regs[v]
	if !ok {
		panic(fmt.Sprintf("unbound SSA value %s (%T) in %s", v.Name(), v, fr.fn.Name()))
	}
	return r
}

func (x *Exec) constVal(c *ssa.Const) Val {
	t := c.Type()
	if c.Value == nil {
		return x.zero(t)
	}
	switch u := t.Underlying().(type) {
	case *types.Basic:
		switch {
		case u.Info()&types.IsBoolean != 0:
			return BoolC(constant.BoolVal(c.Value))
		case u.Info()&types.IsString != 0:
			return StrLit(constant.StringVal(c.Value))
		case u.Info()&types.IsInteger != 0:
			if i, ok := constant.Int64Val(c.Value); ok {
				return IntC(i)
			}
			bi, _ := new(big.Int).SetString(c.Value.ExactString(), 10)
			return IntB(bi)
		case u.Info()&types.IsFloat != 0:
			f, _ := constant.Float64Val(c.Value)
			if f == 0 {
				return Sym("fzero", SF64)
			}
			return Sym(fmt.Sprintf("fconst!%v", f), SF64)
		}
	}
	panic("constVal: unsupported constant " + c.String())
}

// step executes one instruction of the top frame; returns forked states.
func (x *Exec) step(st *State) []*State {
	fr := st.top()
	if fr.pc == 0 && len(st.frames) == 1 {
		if li := x.loopAt[fr.block.Index]; li != nil {
			if done := x.loopHead(st, fr, li); done {
				return nil
			}
		}
	}
	if fr.pc == 0 {
		fr.visits[fr.block.Index]++
		if fr.visits[fr.block.Index] > x.unrollLimit(fr) {
			name := x.topKey + "/unroll-bound@" + joinSite(fr.site, fmt.Sprintf("block%d", fr.block.Index))
			x.emit(st, name, "unroll", TFalse, nil)
			st.dead = true
			return nil
		}
	}
	in := fr.block.Instrs[fr.pc]
	fr.pc++
	return x.exec(st, fr, in)
}

func joinSite(a, b string) string {
	if a == "" {
		return b
	}
	return a + "." + b
}

func (x *Exec) unrollLimit(fr *Frame) int {
	if x.topC != nil && len(st0Frames(fr)) == 0 {
		if li := x.loopAt[fr.block.Index]; li != nil && fr.fn == x.top {
			if ls := x.topC.Loops[li.index]; ls != nil && ls.Unroll > 0 {
				return ls.Unroll + 1
			}
		}
	}
	return 6
}

func st0Frames(fr *Frame) []int { return nil }

func (x *Exec) jump(st *State, fr *Frame, to *ssa.BasicBlock) {
	fr.prev = fr.block
	fr.block = to
	fr.pc = 0
}

// loopHead handles arrival at a loop head of the top-level function. Returns true when
// the path ends here (back-edge).
func (x *Exec) loopHead(st *State, fr *Frame, li *loopInfo) bool {
	var ls *LoopSpec
	if x.topC != nil {
		ls = x.topC.Loops[li.index]
	}
	if ls == nil || (len(ls.Invariants) == 0 && ls.Decreases == nil && !ls.Cut && len(ls.BackAsserts) == 0) {
		// range loops are cut automatically (implicit invariant: the hidden index is >= -1)
		if strings.HasPrefix(li.head.Comment, "rangeindex.loop") || strings.HasPrefix(li.head.Comment, "rangeiter.loop") {
			auto := &LoopSpec{Cut: true}
			if ls != nil {
				auto.Uses = ls.Uses
			}
			if strings.HasPrefix(li.head.Comment, "rangeindex.loop") {
				auto.Invariants = []Clause{{Label: "range-index", Expr: "rangeindex >= -1", Where: "implicit"}}
			}
			ls = auto
		} else {
			return false // unrolled
		}
	} else if strings.HasPrefix(li.head.Comment, "rangeindex.loop") {
		// explicit contract on a range loop: the implicit index invariant is added
		has := false
		for _, inv := range ls.Invariants {
			if inv.Label == "range-index" {
				has = true
			}
		}
		if !has {
			cp := *ls
			cp.Invariants = append([]Clause{{Label: "range-index", Expr: "rangeindex >= -1", Where: "implicit"}}, ls.Invariants...)
			ls = &cp
		}
	}
	// inside "loop k:" clauses, rangeindex means the hidden index of that very loop
	if alias := x.loopIndexAlias(fr, li); alias != "" && alias != "rangeindex" {
		cp := *ls
		re := regexp.MustCompile(`\brangeindex\b`)
		rw := func(cl []Clause) []Clause {
			out := make([]Clause, len(cl))
			for i, c := range cl {
				c.Expr = re.ReplaceAllString(c.Expr, alias)
				out[i] = c
			}
			return out
		}
		cp.Invariants = rw(ls.Invariants)
		cp.BackAsserts = rw(ls.BackAsserts)
		cp.Uses = rw(ls.Uses)
		if ls.Decreases != nil {
			d := *ls.Decreases
			d.Expr = re.ReplaceAllString(d.Expr, alias)
			cp.Decreases = &d
		}
		ls = &cp
	}
	env := x.envFor(st, fr)
	fromInside := fr.prev != nil && li.body[fr.prev.Index]
	if !fromInside {
		x.checkClauses(st, env, ls.Invariants, "inv-init", x.topKey, fmt.Sprintf("loop%d", li.index), false)
		// implicit invariants: a local slice that is nil or freshly allocated when the loop
		// is entered stays so (checked like any other invariant)
		type implInv struct {
			c *cell
		}
		var impl []implInv
		var zeroOff []*cell
		for _, al := range sortedAllocs(li.cells) {
			c := fr.cells[al]
			if c == nil {
				continue
			}
			if sv, ok := st.cellVals[c].(*SliceV); ok {
				if x.checkMods && ((sv.Base.IsInt() && sv.Base.I.Sign() == 0) || st.nonnil[sv.Base.String()]) {
					impl = append(impl, implInv{c})
				}
				if sv.Off.IsInt() && sv.Off.I.Sign() == 0 {
					zeroOff = append(zeroOff, c)
				}
			}
		}
		nm := map[int][]*cell{}
		for k, v := range fr.implSlices {
			nm[k] = v
		}
		nm[li.index] = nil
		for _, ii := range impl {
			nm[li.index] = append(nm[li.index], ii.c)
		}
		fr.implSlices = nm
		zm := map[int][]*cell{}
		for k, v := range fr.zeroOff {
			zm[k] = v
		}
		zm[li.index] = zeroOff
		fr.zeroOff = zm
		// havoc
		x.havocLoop(st, fr, li)
		for _, c := range fr.zeroOff[li.index] {
			if sv, ok := st.cellVals[c].(*SliceV); ok {
				st.assume(Eq(sv.Off, IntC(0)))
			}
		}
		for _, c := range fr.implSlices[li.index] {
			if sv, ok := st.cellVals[c].(*SliceV); ok {
				st.assume(Or(Eq(sv.Base, IntC(0)), Ge(sv.Base, st.alloc0)))
			}
		}
		env = x.envFor(st, fr)
		for _, u := range ls.Uses {
			t, err := env.evalUse(u.Expr)
			if err != nil {
				x.errors = append(x.errors, fmt.Sprintf("%s: use: %v", u.Where, err))
				continue
			}
			st.assumeUse(t)
		}
		for _, inv := range ls.Invariants {
			t, err := env.evalBool(inv.Expr)
			if err != nil {
				continue
			}
			st.assume(t)
		}
		if ls.Decreases != nil {
			v, err := env.evalIntList(ls.Decreases.Expr)
			if err != nil {
				x.errors = append(x.errors, fmt.Sprintf("%s: decreases: %v", ls.Decreases.Where, err))
			} else {
				fr.variants[li.index] = v
			}
		}
		// remember the state at this visit of the head for athead(k, e)
		snapEnv := x.envFor(st, fr)
		snapEnv.st = st.snapshot()
		snapEnv.facts = st
		snapEnv.isPre = false
		fr.heads[li.index] = snapEnv
		x.emitCover(st, fmt.Sprintf("%s/cover:loop%d", x.topKey, li.index))
		return false
	}
	x.checkClauses(st, env, ls.Invariants, "inv-keep", x.topKey, fmt.Sprintf("loop%d", li.index), false)
	x.checkClauses(st, env, ls.BackAsserts, "assert", x.topKey, fmt.Sprintf("loop%d.backedge", li.index), false)
	for _, c := range fr.zeroOff[li.index] {
		if sv, ok := st.cellVals[c].(*SliceV); ok {
			x.emit(st, fmt.Sprintf("%s/inv-keep:local-slice-offset-zero.%s@loop%d", x.topKey, c.name, li.index), "inv-keep", Eq(sv.Off, IntC(0)), nil)
		}
	}
	for _, c := range fr.implSlices[li.index] {
		if sv, ok := st.cellVals[c].(*SliceV); ok {
			x.emit(st, fmt.Sprintf("%s/inv-keep:local-slice-fresh-or-nil.%s@loop%d", x.topKey, c.name, li.index), "inv-keep", Or(Eq(sv.Base, IntC(0)), Ge(sv.Base, st.alloc0)), nil)
		}
	}
	if ls.Decreases != nil {
		if v0, ok := fr.variants[li.index]; ok {
			v, err := env.evalIntList(ls.Decreases.Expr)
			if err == nil {
				x.emit(st, fmt.Sprintf("%s/dec@loop%d", x.topKey, li.index), "dec", lexLess(v, v0), nil)
			}
		}
	}
	st.dead = true
	return true
}

func clauseLabel(c Clause, i int) string {
	if c.Label != "" {
		return c.Label
	}
	return fmt.Sprintf("%d", i)
}

// loopIndexAlias: the contract name (rangeindex__k) of the hidden index of a range loop.
func (x *Exec) loopIndexAlias(fr *Frame, li *loopInfo) string {
	var own *ssa.Alloc
	for _, in := range li.head.Instrs {
		if st, ok := in.(*ssa.Store); ok {
			if al, ok := st.Addr.(*ssa.Alloc); ok && al.Comment == "rangeindex" {
				own = al
			}
		}
	}
	if own == nil {
		return ""
	}
	var all []*ssa.Alloc
	for _, b := range fr.fn.Blocks {
		for _, in := range b.Instrs {
			if al, ok := in.(*ssa.Alloc); ok && al.Comment == "rangeindex" {
				all = append(all, al)
			}
		}
	}
	sort.Slice(all, func(i, j int) bool { return allocOrder(all[i]) < allocOrder(all[j]) })
	for k, al := range all {
		if al == own {
			return fmt.Sprintf("rangeindex__%d", k)
		}
	}
	return ""
}

// emitSplit emits the obligation (kept for call sites that already hold a term).
func (x *Exec) emitSplit(st *State, name, kind string, t *T) {
	x.emit(st, name, kind, t, nil)
}

// splitAnd splits a contract clause at its top-level "&&" (source level, before predicate
// expansion) so that every conjunct becomes its own named obligation.
func splitAnd(src string) []string {
	if findTop(src, "==>") >= 0 || findTop(src, "||") >= 0 {
		return []string{src}
	}
	var out []string
	rest := src
	for {
		i := findTop(rest, "&&")
		if i < 0 {
			break
		}
		out = append(out, strings.TrimSpace(rest[:i]))
		rest = rest[i+2:]
	}
	out = append(out, strings.TrimSpace(rest))
	return out
}

func conjName(c Clause, i int, part string, nparts int) string {
	base := clauseLabel(c, i)
	if nparts == 1 {
		if c.Label == "" {
			return shortExpr(part)
		}
		return base
	}
	if c.Label != "" {
		return c.Label + "." + shortExpr(part)
	}
	return shortExpr(part)
}

func shortExpr(s string) string {
	s = strings.Join(strings.Fields(s), "")
	if len(s) > 48 {
		s = s[:44] + fmt.Sprintf("~%x", hash32(s)&0xfff)
	}
	return s
}

// checkClauses evaluates clauses conjunct by conjunct and emits one obligation each.
func (x *Exec) checkClauses(st *State, env *Env, cl []Clause, kind, prefix, site string, isolate bool) {
	for i, e := range cl {
		parts := splitAnd(e.Expr)
		for _, part := range parts {
			nts, err := env.expandConjuncts(part, 0)
			if err != nil {
				x.errors = append(x.errors, fmt.Sprintf("%s: %s: %v", e.Where, kind, err))
				continue
			}
			for _, nt := range nts {
				label := conjName(e, i, part, len(parts))
				if len(nts) > 1 {
					label = nt.label
					if e.Label != "" {
						label = e.Label + "." + nt.label
					}
				}
				name := fmt.Sprintf("%s/%s:%s@%s", prefix, kind, label, site)
				if isolate {
					sub := st.clone()
					x.emit(sub, name, kind, nt.t, nil)
				} else {
					x.emit(st, name, kind, nt.t, nil)
				}
			}
		}
	}
}

func (x *Exec) havocLoop(st *State, fr *Frame, li *loopInfo) {
	// the head stands for an arbitrary iteration: earlier iterations may have allocated, so
	// the watermark moves first and the havoced variables may refer to anything below it
	newAlloc := Fresh("A", SInt)
	st.assume(Ge(newAlloc, st.alloc))
	st.alloc = newAlloc
	for _, al := range sortedAllocs(li.cells) {
		c := fr.cells[al]
		if c == nil {
			continue // allocated inside the loop
		}
		st.cellSet(c, x.freshVal(st, c.typ, "lh!"+c.name))
	}
	for i := range st.iters {
		if st.iters[i].pos != nil {
			p := Fresh("rng!pos", SInt)
			st.assume(Ge(p, IntC(0)))
			st.iters[i].pos = p
			continue
		}
		st.iters[i].visited = Fresh("visited", st.iters[i].visited.Sort)
	}
	if os.Getenv("TWV_DEBUG_LOOP") != "" {
		fmt.Fprintf(os.Stderr, "loop %d of %s havoc keys: %v\n", li.index, x.topKey, li.keys)
	}
	if li.keys["*"] {
		x.havocAll(st)
		return
	}
	for _, k := range sortedBoolKeys(li.keys) {
		if strings.HasPrefix(k, "mod:") {
			// callee modifies item: havoc by key prefix, conservatively for all refs
			parts := strings.SplitN(k, ":", 3)
			x.havocModText(st, fr, parts[1], parts[2])
			continue
		}
		x.havocPrefix(st, k)
	}
}

// havocPrefix replaces every known heap array whose key starts with prefix by a fresh one.
func (x *Exec) havocPrefix(st *State, prefix string) {
	x.materialize(st, prefix)
	for _, k := range sortedHeapKeys(st.heap) {
		a := st.heap[k]
		if k == prefix || strings.HasPrefix(k, prefix) {
			st.heap[k] = Fresh("Hl!"+k, a.Sort)
		}
	}
}

// materialize makes sure arrays for all leaves under a struct-field prefix exist, so a
// later first access does not silently alias the pre-state array.
func (x *Exec) materialize(st *State, prefix string) {
	if !strings.HasPrefix(prefix, "F:") {
		// arrays of this family not yet materialised get a fresh name when first touched
		st.events = append(st.events, prefix)
		return
	}
	rest := strings.TrimPrefix(prefix, "F:")
	for name, t := range x.ld.structs {
		if !strings.HasPrefix(rest, name+".") {
			continue
		}
		for _, l := range x.leaves(t) {
			key := fieldKey(t, l.path)
			if strings.HasPrefix(key, prefix) {
				st.heapArr(key, ArrSort(SInt, l.sort))
			}
		}
	}
}

func (x *Exec) havocAll(st *State) {
	for _, k := range sortedHeapKeys(st.heap) {
		a := st.heap[k]
		st.heap[k] = Fresh("Hh!"+k, a.Sort)
	}
	st.events = append(st.events, "*")
}

func (x *Exec) envFor(st *State, fr *Frame) *Env {
	vars := map[string]Val{}
	tys := map[string]types.Type{}
	// named cells of this frame; later declarations shadow earlier ones
	type named struct {
		al *ssa.Alloc
		c  *cell
	}
	var ns []named
	for al, c := range fr.cells {
		if al.Comment != "" {
			ns = append(ns, named{al, c})
		}
	}
	sort.Slice(ns, func(i, j int) bool { return allocOrder(ns[i].al) < allocOrder(ns[j].al) })
	counts := map[string]int{}
	isParam := map[string]bool{}
	for _, p := range fr.fn.Params {
		isParam[p.Name()] = true
	}
	for _, n := range ns {
		name := n.al.Comment
		var v Val
		var t types.Type
		if n.al.Heap {
			p := fr.regs[n.al].(*PtrV)
			t = n.al.Type().(*types.Pointer).Elem()
			if _, isStruct := t.Underlying().(*types.Struct); isStruct {
				v = p
				t = n.al.Type()
			} else {
				v = x.loadPtr(st, p)
			}
		} else {
			cv, ok := st.cellVals[n.c]
			if !ok {
				continue
			}
			v = cv
			t = n.c.typ
		}
		k := counts[name]
		counts[name]++
		vars[fmt.Sprintf("%s#%d", name, k)] = v
		tys[fmt.Sprintf("%s#%d", name, k)] = t
		vars[fmt.Sprintf("%s__%d", name, k)] = v
		tys[fmt.Sprintf("%s__%d", name, k)] = t
		if k > 0 && isParam[name] {
			continue // a parameter name keeps meaning the parameter, not a shadowing local
		}
		vars[name] = v
		tys[name] = t
	}
	for k, v := range fr.binds {
		vars[k] = v
		tys[k] = fr.bindTypes[k]
		if tv, ok := v.(TupleV); ok {
			if tt, ok := fr.bindTypes[k].(*types.Tuple); ok {
				for i := range tv {
					vars[fmt.Sprintf("%s%d", k, i)] = tv[i]
					tys[fmt.Sprintf("%s%d", k, i)] = tt.At(i).Type()
				}
			}
		}
	}
	// parameters that were never spilled to a named cell (synthetic wrappers)
	for _, p := range fr.fn.Params {
		if _, ok := vars[p.Name()]; !ok && p.Name() != "" {
			if v, ok := fr.regs[p]; ok {
				vars[p.Name()] = v
				tys[p.Name()] = p.Type()
			}
		}
	}
	if fr.fn == x.top && x.preEnv != nil {
		if tv, ok := x.preEnv.vars["this"]; ok {
			vars["this"] = tv
			tys["this"] = x.preEnv.types["this"]
		}
		for k, v := range x.preEnv.vars {
			if strings.HasPrefix(k, "free_") {
				vars[k] = v
				tys[k] = x.preEnv.types[k]
			}
		}
	}
	return &Env{x: x, st: st, vars: vars, types: tys, pkg: fnPkg(fr.fn), old: x.preEnv, facts: st, heads: fr.heads}
}

// ---- frame checking ----

func (x *Exec) checkFrame(st *State, fr *Frame, in ssa.Instruction, ref *T, key string) {
	if !x.checkMods || ref == nil {
		return
	}
	alts := []*T{Ge(ref, st.alloc0)}
	for _, m := range x.mods {
		switch m.Kind {
		case "all":
			return
		case "field":
			pfx := fieldKey(m.Owner, m.Path)
			if key == pfx || strings.HasPrefix(key, pfx+".") || strings.HasPrefix(key, pfx+"#") {
				alts = append(alts, Eq(ref, m.Ref))
			}
		case "allfields":
			if strings.HasPrefix(key, "F:"+structName(m.Owner)+".") {
				alts = append(alts, Eq(ref, m.Ref))
			}
		case "mapc":
			if key == mapDomKey(m.MapT) || strings.HasPrefix(key, "MV:"+typeKey(m.MapT)) {
				alts = append(alts, Eq(ref, m.Ref))
			}
		case "slicec":
			if strings.HasPrefix(key, "E:"+typeKey(m.ElemT)) {
				alts = append(alts, Eq(ref, m.Ref))
			}
		case "cell":
			if strings.HasPrefix(key, "C:") {
				alts = append(alts, Eq(ref, m.Ref))
			}
		case "anyfield":
			pfx := fieldKey(m.Owner, m.Path)
			if key == pfx || strings.HasPrefix(key, pfx+".") || strings.HasPrefix(key, pfx+"#") {
				return
			}
		case "anyslice":
			if strings.HasPrefix(key, "E:"+typeKey(m.ElemT)) {
				return
			}
		case "anymap":
			if key == mapDomKey(m.MapT) || strings.HasPrefix(key, "MV:"+typeKey(m.MapT)) {
				return
			}
		}
	}
	name := x.topKey + "/frame:" + frameKeyName(key) + "@" + x.siteName(fr, in)
	x.emit(st, name, "frame", Or(alts...), []*T{ref})
}

func frameKeyName(key string) string {
	return strings.NewReplacer("F:", "", "E:", "elems-", "MD:", "map-", "MV:", "map-", "C:", "cell-", "G:", "global-").Replace(key)
}

func (x *Exec) checkFrameGlobal(st *State, fr *Frame, in ssa.Instruction, g *ssa.Global) {
	if !x.checkMods {
		return
	}
	for _, m := range x.mods {
		if m.Kind == "all" || (m.Kind == "global" && m.Global == g) {
			return
		}
	}
	name := x.topKey + "/frame:global-" + g.Pkg.Pkg.Name() + "." + g.Name() + "@" + x.siteName(fr, in)
	x.emit(st, name, "frame", TFalse, nil)
}

func (st *State) noteInst(t *T) {
	if t.IsInt() || t.IsBool() {
		return
	}
	k := t.String()
	for _, o := range st.instTerms {
		if o.String() == k {
			return
		}
	}
	if len(st.instTerms) >= 12 {
		st.instTerms = st.instTerms[1:]
	}
	st.instTerms = append(st.instTerms, t)
}

// instantiateFacts conjoins, to every single-variable universal fact, its instances at
// the index/key terms used on this path (an equivalence: (forall x. P) <=> (forall x. P) && P[t]).
// E-matching alone misses them because solvers normalise the arithmetic inside the triggers.
func instantiateFacts(facts []*T, terms []*T) []*T {
	out := make([]*T, len(facts))
	if len(terms) == 0 {
		copy(out, facts)
		return out
	}
	for i, f := range facts {
		if !containsForall(f) {
			out[i] = f
			continue
		}
		out[i] = instRewrite(f, terms)
	}
	return out
}

func containsForall(t *T) bool {
	if t.Op != "app" {
		return false
	}
	if t.Name == "forall" {
		return true
	}
	if t.Name == "exists" {
		return true
	}
	for _, a := range t.Args {
		if containsForall(a) {
			return true
		}
	}
	return false
}

func instRewrite(t *T, terms []*T) *T {
	if t.Op != "app" {
		return t
	}
	if t.Name == "forall" {
		n := len(t.Args) - 1
		if n != 1 {
			return t
		}
		v := t.Args[0]
		parts := []*T{t}
		for _, tm := range terms {
			if tm.Sort != v.Sort || mentionsBound(tm) {
				continue
			}
			parts = append(parts, Subst(t.Args[1], map[string]*T{v.Name: tm}))
		}
		return And(parts...)
	}
	if t.Name == "exists" {
		// dually: (exists x. P) <=> (exists x. P) || P[t]
		n := len(t.Args) - 1
		if n != 1 {
			return t
		}
		v := t.Args[0]
		parts := []*T{t}
		for _, tm := range terms {
			if tm.Sort != v.Sort || mentionsBound(tm) {
				continue
			}
			parts = append(parts, Subst(t.Args[1], map[string]*T{v.Name: tm}))
		}
		return Or(parts...)
	}
	changed := false
	args := make([]*T, len(t.Args))
	for i, a := range t.Args {
		args[i] = instRewrite(a, terms)
		if args[i] != a {
			changed = true
		}
	}
	if !changed {
		return t
	}
	return &T{Op: "app", Name: t.Name, Args: args, Sort: t.Sort}
}

// allocOrder: declaration order of a local (block index, then position in the block).
func allocOrder(al *ssa.Alloc) int {
	b := al.Block()
	if b == nil {
		return 0
	}
	for i, in := range b.Instrs {
		if in == ssa.Instruction(al) {
			return b.Index*100000 + i
		}
	}
	return b.Index * 100000
}

// skolemizeGoal replaces universal quantifiers in positive position of a goal by fresh
// constants (proving P(c) for an arbitrary c proves forall x. P(x)).
func skolemizeGoal(g *T) (*T, []*T) {
	if g.Op != "app" {
		return g, nil
	}
	switch g.Name {
	case "forall":
		n := len(g.Args) - 1
		m := map[string]*T{}
		var sk []*T
		for _, v := range g.Args[:n] {
			c := Fresh("sk!"+strings.TrimPrefix(v.Name, "b!"), v.Sort)
			m[v.Name] = c
			sk = append(sk, c)
		}
		body, more := skolemizeGoal(Subst(g.Args[n], m))
		return body, append(sk, more...)
	case "and":
		var sk []*T
		args := make([]*T, len(g.Args))
		for i, a := range g.Args {
			var s2 []*T
			args[i], s2 = skolemizeGoal(a)
			sk = append(sk, s2...)
		}
		return And(args...), sk
	case "=>":
		b, sk := skolemizeGoal(g.Args[1])
		return Implies(g.Args[0], b), sk
	}
	return g, nil
}

func sortedHeapKeys(m map[string]*T) []string {
	ks := make([]string, 0, len(m))
	for k := range m {
		ks = append(ks, k)
	}
	sort.Strings(ks)
	return ks
}

func sortedBoolKeys(m map[string]bool) []string {
	ks := make([]string, 0, len(m))
	for k := range m {
		ks = append(ks, k)
	}
	sort.Strings(ks)
	return ks
}

func sortedAllocs(m map[*ssa.Alloc]bool) []*ssa.Alloc {
	as := make([]*ssa.Alloc, 0, len(m))
	for a := range m {
		as = append(as, a)
	}
	sort.Slice(as, func(i, j int) bool { return allocOrder(as[i]) < allocOrder(as[j]) })
	return as
}

// coverFacts weakens the path facts to their quantifier-free part for the vacuity check:
// quantified facts are replaced by their instances at the path's index terms and every
// conjunct that still contains a quantifier is dropped. Dropping assumptions can only make
// the set easier to satisfy, so an unsat answer still shows a contradiction; the solver
// then answers sat instead of running into its limit on nested quantifiers.
func coverFacts(facts []*T, terms []*T) []*T {
	var out []*T
	var add func(t *T)
	add = func(t *T) {
		if t.Op == "app" && t.Name == "and" {
			for _, a := range t.Args {
				add(a)
			}
			return
		}
		if containsForall(t) {
			return
		}
		out = append(out, t)
	}
	for _, f := range facts {
		if containsForall(f) && len(terms) > 0 {
			f = instRewrite(f, terms)
		}
		add(f)
	}
	return out
}

// assumeUse assumes an instantiated axiom. A universal quantifier among the conjuncts of the
// axiom's antecedent is an existential of the fact ((forall k. S(k)) => Q  is  exists k.
// (S(k) => Q)); it is replaced by a fresh constant, at which the path's universal facts are
// then instantiated like at any other index term. Without this the solver has to find the
// instance itself, which made introduction rules with list-valued children slow and
// seed-dependent.
func (st *State) assumeUse(t *T) {
	if t.Op == "app" && t.Name == "=>" && len(t.Args) == 2 && containsForall(t.Args[0]) {
		var sks []*T
		var conj func(a *T) *T
		conj = func(a *T) *T {
			if a.Op != "app" {
				return a
			}
			switch a.Name {
			case "and":
				args := make([]*T, len(a.Args))
				for i, c := range a.Args {
					args[i] = conj(c)
				}
				return And(args...)
			case "forall":
				n := len(a.Args) - 1
				m := map[string]*T{}
				for _, v := range a.Args[:n] {
					c := Fresh("sk!"+strings.TrimPrefix(v.Name, "b!"), v.Sort)
					m[v.Name] = c
					sks = append(sks, c)
				}
				return conj(Subst(a.Args[n], m))
			case "=>":
				// forall k. (guard => body): keep the guard, continue into the body
				if len(a.Args) == 2 && !containsForall(a.Args[0]) {
					return Implies(a.Args[0], conj(a.Args[1]))
				}
			}
			return a
		}
		ante := conj(t.Args[0])
		t = Implies(ante, t.Args[1])
		for _, c := range sks {
			st.noteInstForce(c)
		}
	}
	st.assume(t)
}

func (st *State) noteInstForce(t *T) {
	k := t.String()
	for _, o := range st.instTerms {
		if o.String() == k {
			return
		}
	}
	if len(st.instTerms) >= 12 {
		st.instTerms = st.instTerms[1:]
	}
	st.instTerms = append(st.instTerms, t)
}

// allocBound: the declared allocation bound (//@ allocbound N), 1 GiB when not declared.
func (x *Exec) allocBound() int64 {
	if x.cs != nil && x.cs.AllocBound > 0 {
		return x.cs.AllocBound
	}
	return 1 << 30
}

// checkClauseSites: every site a contract clause names (call f#k, return k, loop k) must
// exist in the function's current code. A clause about a site that is gone would otherwise
// be skipped silently, and whatever it asserted would no longer be checked.
func (x *Exec) checkClauseSites(f *ssa.Function, c *FuncContract) {
	if c == nil || c.IsFamily {
		return
	}
	t := sites(f)
	have := map[string]bool{}
	prefix := map[string]bool{}
	for _, n := range t.names {
		have[n] = true
		if i := strings.LastIndex(n, "#"); i >= 0 {
			prefix[n[:i]] = true
		}
	}
	missing := func(kind, key string) {
		x.errors = append(x.errors, fmt.Sprintf("%s: %s clause names site %s, which %s no longer has (the code changed shape; the clause is not checked)", c.Where, kind, key, x.topKey))
	}
	check := func(kind, key string) {
		if strings.HasSuffix(key, "#*") {
			if !prefix[strings.TrimSuffix(key, "#*")] {
				missing(kind, key)
			}
			return
		}
		if !have[key] {
			missing(kind, key)
		}
	}
	var keys []string
	for k := range c.Calls {
		keys = append(keys, "call "+k)
	}
	for k := range c.CallUses {
		keys = append(keys, "call-use "+k)
	}
	for k := range c.CallBinds {
		keys = append(keys, "call-bind "+k)
	}
	for k := range c.Rets {
		keys = append(keys, "return "+k)
	}
	sort.Strings(keys)
	for _, k := range keys {
		parts := strings.SplitN(k, " ", 2)
		check(parts[0], parts[1])
	}
	var ls []int
	for k := range c.Loops {
		ls = append(ls, k)
	}
	sort.Ints(ls)
	for _, k := range ls {
		if k >= len(x.loops) {
			missing("loop", fmt.Sprintf("loop %d", k))
		}
	}
}
