package main

import (
	"encoding/json"
	"flag"
	"fmt"
	"golang.org/x/tools/go/ssa"
	"os"
	"path/filepath"
	"regexp"
	"sort"
	"strings"
	"sync"
	"time"
)

type ObResult struct {
	Name      string            `json:"name"`
	Func      string            `json:"func"`
	Kind      string            `json:"kind"`
	Instances int               `json:"instances"`
	Trivial   int               `json:"trivial_instances"`
	Status    string            `json:"status"` // proved, refuted, undecided, cover-ok, cover-vacuous
	Solver    string            `json:"solver,omitempty"`
	Ms        int64             `json:"ms"`
	FailFile  string            `json:"fail_file,omitempty"`
	Model     map[string]string `json:"model,omitempty"`
	Raw       string            `json:"raw,omitempty"`
}

type RunOutput struct {
	Functions   []string            `json:"functions"`
	Results     []*ObResult         `json:"results"`
	Errors      []string            `json:"errors"`
	Warnings    map[string]int      `json:"warnings"`
	Havoc       map[string]int      `json:"havoc_calls"`
	Inlined     map[string]int      `json:"inlined"`
	Stdlib      map[string]int      `json:"stdlib_assumed"`
	Paths       map[string]int      `json:"paths"`
	SolverMs    int64               `json:"solver_ms"`
	WallS       float64             `json:"wall_s"`
	ConstTables map[string][]string `json:"const_tables"`
	FamilyChecks []string `json:"family_checks"`
	ScanOnly     []string `json:"scan_only_functions"`
}

func main() {
	if len(os.Args) < 2 {
		fmt.Fprintln(os.Stderr, "usage: twv run|check ...")
		os.Exit(2)
	}
	switch os.Args[1] {
	case "run":
		cmdRun(os.Args[2:])
	case "check":
		cmdCheck(os.Args[2:])
	case "replay":
		cmdReplay(os.Args[2:])
	case "sites":
		cmdSites(os.Args[2:])
	default:
		fmt.Fprintln(os.Stderr, "unknown command", os.Args[1])
		os.Exit(2)
	}
}

type runOpts struct {
	repo     string
	funcs    []*regexp.Regexp
	kinds    map[string]bool
	work     string
	timeout  int
	seed     int
	cross    bool
	jobs     int
	noCovers bool
	only     *regexp.Regexp
	scan     *scanOpts
	astScan  *astScanOpts
	recScan  bool
}

func cmdRun(args []string) {
	fs := flag.NewFlagSet("run", flag.ExitOnError)
	repo := fs.String("repo", "/repo", "repository")
	fre := fs.String("funcs", "", "comma separated regexps of function keys")
	work := fs.String("work", "/verif/.work/run", "work directory")
	timeout := fs.Int("timeout", 10, "solver timeout (s)")
	seed := fs.Int("seed", 0, "seed")
	cross := fs.Bool("cross", false, "cross-check with all solvers")
	jobs := fs.Int("jobs", 16, "parallel solver jobs")
	kinds := fs.String("kinds", "", "obligation kinds (comma separated; empty = all)")
	only := fs.String("only", "", "regexp on obligation names")
	verbose := fs.Bool("v", false, "print every obligation")
	out := fs.String("out", "", "write JSON here")
	rec := fs.Bool("scan-recursion", false, "scan the functions for call cycles without a variant")
	fs.Parse(args)
	o := &runOpts{repo: *repo, work: *work, timeout: *timeout, seed: *seed, cross: *cross, jobs: *jobs, recScan: *rec}
	for _, r := range strings.Split(*fre, ",") {
		if r != "" {
			o.funcs = append(o.funcs, regexp.MustCompile("^(?:"+r+")$"))
		}
	}
	if *kinds != "" {
		o.kinds = map[string]bool{}
		for _, k := range strings.Split(*kinds, ",") {
			o.kinds[k] = true
		}
	}
	if *only != "" {
		o.only = regexp.MustCompile(*only)
	}
	res, err := runVerify(o)
	if err != nil {
		fmt.Fprintln(os.Stderr, "error:", err)
		os.Exit(3)
	}
	counts := map[string]int{}
	for _, r := range res.Results {
		counts[r.Status]++
		if *verbose || (r.Status != "proved" && r.Status != "cover-ok") {
			fmt.Printf("%-10s %-8s %6dms %s  [%d inst, %d trivial]\n", r.Status, r.Solver, r.Ms, r.Name, r.Instances, r.Trivial)
		}
	}
	for _, e := range res.Errors {
		fmt.Println("ERROR:", e)
	}
	for w, n := range res.Warnings {
		fmt.Printf("warning (%d): %s\n", n, w)
	}
	fmt.Printf("functions=%d obligations=%d %v solver=%.1fs wall=%.1fs\n", len(res.Functions), len(res.Results), counts, float64(res.SolverMs)/1000, res.WallS)
	if *out != "" {
		b, _ := json.MarshalIndent(res, "", " ")
		os.WriteFile(*out, b, 0o644)
	}
}

func runVerify(o *runOpts) (*RunOutput, error) {
	start := time.Now()
	ld, err := Load(o.repo)
	if err != nil {
		return nil, err
	}
	cs, err := LoadContracts(o.repo)
	if err != nil {
		return nil, err
	}
	x := NewExec(ld, cs)
	x.kinds = o.kinds
	out := &RunOutput{Paths: map[string]int{}, ConstTables: map[string][]string{}}
	var keys []string
	for k := range ld.funcs {
		keys = append(keys, k)
	}
	sort.Strings(keys)
	for _, k := range keys {
		match := false
		for _, r := range o.funcs {
			if r.MatchString(k) {
				match = true
			}
		}
		if !match {
			continue
		}
		f := ld.funcs[k]
		c := cs.Funcs[k]
		if c != nil && (c.TrustedAll || c.Inline) {
			continue
		}
		out.Functions = append(out.Functions, k)
		c = x.contractFor(f)
		x.Verify(f, c)
		out.Paths[k] = x.pathCount
		out.FamilyChecks = append(out.FamilyChecks, x.verifyFamilyMembership(f)...)
	}
	var scanRes []*ObResult
	if o.scan != nil {
		var fs []*ssa.Function
		for _, k := range out.Functions {
			fs = append(fs, ld.funcs[k])
		}
		// helpers that are inlined (no own verification run) are part of the cone too
		for _, k := range keys {
			c := cs.Funcs[k]
			if c != nil && c.Inline {
				for _, r := range o.funcs {
					if r.MatchString(k) {
						fs = append(fs, ld.funcs[k])
						break
					}
				}
			}
		}
		if len(o.scan.ReachableFrom) > 0 {
			have := map[*ssa.Function]bool{}
			for _, f := range fs {
				have[f] = true
			}
			for _, f := range x.reachableFrom(o.scan.ReachableFrom) {
				if !have[f] {
					fs = append(fs, f)
					out.ScanOnly = append(out.ScanOnly, funcKey(f))
				}
			}
		}
		scanRes = x.scanNondeterminism(fs, *o.scan)
		scanRes = append(scanRes, x.scanMapRanges(fs)...)
		if o.scan.SharedReads {
			scanRes = append(scanRes, x.scanSharedFlagReads(fs)...)
		}
	}
	if o.astScan != nil {
		allowed := map[string]bool{}
		for _, a := range o.astScan.Allowed {
			allowed[a] = true
		}
		scanRes = append(scanRes, x.scanAstWrites(ld.allFuncs, allowed)...)
	}
	if o.recScan {
		var fs []*ssa.Function
		for _, k := range out.Functions {
			fs = append(fs, ld.funcs[k])
		}
		scanRes = append(scanRes, x.scanRecursion(fs)...)
	}
	for _, cm := range ld.constMaps {
		out.ConstTables[cm.g.Pkg.Pkg.Name()+"."+cm.g.Name()] = cm.src
	}
	out.Errors = x.errors
	out.Warnings = x.warnings
	out.Havoc = x.havocCalls
	out.Inlined = x.inlined
	out.Stdlib = x.stdlibUsed
	// group by name
	groups := map[string][]*Oblig{}
	var names []string
	for _, ob := range x.obligs {
		if o.only != nil && !o.only.MatchString(ob.Name) {
			continue
		}
		if _, ok := groups[ob.Name]; !ok {
			names = append(names, ob.Name)
		}
		groups[ob.Name] = append(groups[ob.Name], ob)
	}
	for n := range x.trivial {
		if o.only != nil && !o.only.MatchString(n) {
			continue
		}
		if _, ok := groups[n]; !ok {
			names = append(names, n)
			groups[n] = nil
		}
	}
	sort.Strings(names)
	os.RemoveAll(o.work)
	os.MkdirAll(o.work, 0o755)
	type job struct {
		ob  *Oblig
		idx int
	}
	results := map[string]*ObResult{}
	for _, n := range names {
		r := &ObResult{Name: n, Instances: len(groups[n]), Trivial: x.trivial[n], Status: "proved", Solver: "simplifier"}
		if len(groups[n]) > 0 {
			r.Func, r.Kind = groups[n][0].Func, groups[n][0].Kind
			if groups[n][0].Cover {
				r.Status = "cover-vacuous"
			}
		} else {
			r.Func = strings.SplitN(n, "/", 2)[0]
			r.Kind = strings.SplitN(strings.SplitN(n, "/", 2)[1], ":", 2)[0]
			r.Kind = strings.SplitN(r.Kind, "@", 2)[0]
		}
		results[n] = r
		out.Results = append(out.Results, r)
	}
	var mu sync.Mutex
	var wg sync.WaitGroup
	ch := make(chan job)
	for w := 0; w < o.jobs; w++ {
		wg.Add(1)
		go func() {
			defer wg.Done()
			for j := range ch {
				q := *j.ob.Query
				q.Name = fmt.Sprintf("%s__%d", j.ob.Name, j.idx)
				to := o.timeout
				sr := Solve(&q, o.work, to, o.seed, o.cross && !j.ob.Cover)
				mu.Lock()
				r := results[j.ob.Name]
				r.Ms += sr.Ms
				out.SolverMs += sr.Ms
				if j.ob.Cover {
					// covers: at least one instance must be satisfiable (or not refuted)
					if sr.Status == "sat" || sr.Status == "unknown" || sr.Status == "timeout" {
						r.Status = "cover-ok"
						r.Solver = sr.Solver
					}
				} else {
					switch sr.Status {
					case "unsat":
						if r.Solver == "simplifier" {
							r.Solver = sr.Solver
						} else if !strings.Contains(r.Solver, sr.Solver) && r.Status == "proved" {
							r.Solver += "+" + sr.Solver
						}
					case "sat":
						if r.Status != "refuted" {
							r.Status = "refuted"
							r.Solver = sr.Solver
							r.FailFile = filepath.Join(o.work, smtFileName(q.Name)+".smt2")
							r.Model = sr.Model
							r.Raw = truncate(sr.Raw, 4000)
						}
					default:
						if r.Status == "proved" {
							r.Status = "undecided"
							r.Solver = sr.Solver + ":" + sr.Status
							r.FailFile = filepath.Join(o.work, smtFileName(q.Name)+".smt2")
							r.Raw = truncate(sr.Raw, 2000)
						}
					}
				}
				mu.Unlock()
			}
		}()
	}
	var coverWG sync.WaitGroup
	sem := make(chan struct{}, 4)
	for _, n := range names {
		if len(groups[n]) > 0 && groups[n][0].Cover {
			coverWG.Add(1)
			go func(n string) {
				defer coverWG.Done()
				sem <- struct{}{}
				defer func() { <-sem }()
				for i, ob := range groups[n] {
					q := *ob.Query
					q.Name = fmt.Sprintf("%s__%d", ob.Name, i)
					mu.Lock()
					q.Text = q.SMT()
					mu.Unlock()
					sr := solve(&q, o.work, o.timeout, o.seed, false, true)
					mu.Lock()
					r := results[n]
					r.Ms += sr.Ms
					out.SolverMs += sr.Ms
					ok := sr.Status == "sat" || sr.Status == "unknown" || sr.Status == "timeout"
					if ok {
						r.Status = "cover-ok"
						r.Solver = sr.Solver
					}
					mu.Unlock()
					if ok {
						return
					}
				}
			}(n)
			continue
		}
		for i, ob := range groups[n] {
			mu.Lock()
			ob.Query.Text = ob.Query.SMT()
			mu.Unlock()
			ch <- job{ob, i}
		}
	}
	close(ch)
	wg.Wait()
	coverWG.Wait()
	out.Results = append(out.Results, scanRes...)
	out.WallS = time.Since(start).Seconds()
	return out, nil
}

func truncate(s string, n int) string {
	if len(s) > n {
		return s[:n] + "..."
	}
	return s
}

// effectiveContract merges family contracts and default contracts into a function's own.
func (x *Exec) effectiveContract(fn *ssa.Function, c *FuncContract) *FuncContract {
	fams := x.familiesOf(fn)
	var plainFams []*FuncContract
	for _, m := range x.funcFamilyMembers()[fn] {
		if m.wrapper == nil {
			var params []string
			for _, p := range fn.Params {
				params = append(params, p.Name())
			}
			plainFams = append(plainFams, familyContractFor(m.fam, funcKey(fn), funcKey(fn), "0", params))
		}
	}
	var def *FuncContract
	if fn.Signature.Recv() != nil {
		parts := strings.Split(funcKey(fn), ".")
		if len(parts) == 3 {
			def = x.cs.Defaults[parts[0]+"."+parts[1]]
		}
	}
	if c != nil && c.NoDefault {
		def = nil
	}
	if len(fams) == 0 && def == nil && len(plainFams) == 0 {
		return c
	}
	m := &FuncContract{Key: funcKey(fn), Loops: map[int]*LoopSpec{}, Calls: map[string][]Clause{}, CallUses: map[string][]Clause{}}
	if c != nil {
		cp := *c
		m = &cp
	} else {
		m.Pkg = fnPkg(fn).Name()
	}
	recv := ""
	if len(fn.Params) > 0 {
		recv = fn.Params[0].Name()
	}
	for _, fam := range fams {
		ren := func(cl []Clause) []Clause {
			var out []Clause
			for _, e := range cl {
				out = append(out, e)
			}
			return out
		}
		// family parameter names other than "this" must match the method's parameter names;
		// they are rebound by position
		sub := map[string]string{}
		for i, n := range fam.Params {
			if i == 0 {
				continue
			}
			if i < len(fn.Params) {
				sub[n] = fn.Params[i].Name()
			}
		}
		re := func(cl []Clause) []Clause {
			out := ren(cl)
			for i := range out {
				for from, to := range sub {
					if from != to && to != "" {
						out[i].Expr = regexp.MustCompile(`\b`+from+`\b`).ReplaceAllString(out[i].Expr, to)
					}
				}
			}
			return out
		}
		m.Requires = append(m.Requires, re(fam.Requires)...)
		m.Ensures = append(m.Ensures, re(fam.Ensures)...)
		m.Goals = append(m.Goals, re(fam.Goals)...)
		if fam.HasMod && !m.HasMod {
			m.HasMod = true
			m.Modifies = append(m.Modifies, fam.Modifies...)
		}
	}
	for _, pf := range plainFams {
		m.Requires = append(m.Requires, pf.Requires...)
		m.Ensures = append(m.Ensures, pf.Ensures...)
		m.Goals = append(m.Goals, pf.Goals...)
		if pf.HasMod && !m.HasMod {
			m.HasMod = true
			m.Modifies = append(m.Modifies, pf.Modifies...)
		}
	}
	if def != nil && (c == nil || !c.Inline) {
		sub := func(cl []Clause) []Clause {
			var out []Clause
			for _, e := range cl {
				if def.RecvName != recv && recv != "" {
					e.Expr = regexp.MustCompile(`\b`+def.RecvName+`\b`).ReplaceAllString(e.Expr, recv)
				}
				out = append(out, e)
			}
			return out
		}
		m.Requires = append(sub(def.Requires), m.Requires...)
		m.Ensures = append(append([]Clause{}, m.Ensures...), sub(def.Ensures)...) // own clauses first: the defaults may build on them
		if m.RecDec == nil && def.RecDec != nil {
			rd := sub([]Clause{*def.RecDec})[0]
			m.RecDec = &rd
		}
		if def.HasMod && !m.HasMod {
			m.HasMod = true
			for _, it := range def.Modifies {
				if def.RecvName != recv && recv != "" {
					it = regexp.MustCompile(`\b`+def.RecvName+`\b`).ReplaceAllString(it, recv)
				}
				m.Modifies = append(m.Modifies, it)
			}
		}
	}
	return m
}


// cmdSites prints the ordinal names of calls, returns and loops of a function with their
// source lines (a debugging aid for writing contracts).
func cmdSites(args []string) {
	ld, err := Load("/repo")
	if err != nil {
		fmt.Println(err)
		os.Exit(3)
	}
	cs, _ := LoadContracts("/repo")
	x := NewExec(ld, cs)
	if len(args) == 1 && args[0] == "-raw" {
		var keys []string
		for k := range ld.funcs {
			keys = append(keys, k)
		}
		sort.Strings(keys)
		for _, k := range keys {
			f := ld.funcs[k]
			t := sites(f)
			for _, b := range f.Blocks {
				for i, in := range b.Instrs {
					fmt.Printf("%s\t%d.%d\t%s\n", k, b.Index, i, t.names[in])
				}
			}
		}
		return
	}
	if len(args) == 1 && args[0] == "-all" {
		args = nil
		for k := range ld.funcs {
			args = append(args, k)
		}
		sort.Strings(args)
	}
	for _, k := range args {
		f := ld.funcs[k]
		if f == nil {
			fmt.Println("unknown function", k)
			continue
		}
		t := sites(f)
		type ent struct {
			name string
			line int
		}
		var es []ent
		for in, n := range t.names {
			if strings.HasPrefix(n, "ret#") || strings.Contains(n, "#") {
				switch in.(type) {
				case *ssa.Return, *ssa.Call, *ssa.TypeAssert, *ssa.Panic:
					es = append(es, ent{n, ld.fset.Position(in.Pos()).Line})
				}
			}
		}
		sort.Slice(es, func(i, j int) bool { return es[i].line < es[j].line || (es[i].line == es[j].line && es[i].name < es[j].name) })
		fmt.Println("==", k)
		for _, e := range es {
			fmt.Printf("  %-40s line %d\n", e.name, e.line)
		}
		x.analyzeLoops(f)
		for _, li := range x.loops {
			fmt.Printf("  loop %d at line %d\n", li.index, ld.fset.Position(li.pos).Line)
		}
	}
}
