package main

// SMT term layer: a tiny hash-free term language with constant folding, printing to
// SMT-LIB2 and collection of declarations. All Go integers are mathematical Int unless a
// function is verified with "ints wrap64" (then arithmetic is wrapped explicitly).

import (
	"fmt"
	"math/big"
	"sort"
	"strings"
)

type Sort string

const (
	SInt  Sort = "Int"
	SBool Sort = "Bool"
	SStr  Sort = "Str"
	SF64  Sort = "F64"
)

func ArrSort(k, v Sort) Sort { return Sort("(Array " + string(k) + " " + string(v) + ")") }

func (s Sort) IsArr() bool { return strings.HasPrefix(string(s), "(Array ") }

// ArrParts splits "(Array K V)" into K and V.
func (s Sort) ArrParts() (Sort, Sort) {
	in := strings.TrimSuffix(strings.TrimPrefix(string(s), "(Array "), ")")
	depth := 0
	for i, c := range in {
		switch c {
		case '(':
			depth++
		case ')':
			depth--
		case ' ':
			if depth == 0 {
				return Sort(in[:i]), Sort(in[i+1:])
			}
		}
	}
	panic("bad array sort " + string(s))
}

type T struct {
	Op   string // "int", "bool", "sym", "app"
	I    *big.Int
	B    bool
	Name string
	Args []*T
	Sort Sort
	str  string
}

var (
	TTrue  = &T{Op: "bool", B: true, Sort: SBool}
	TFalse = &T{Op: "bool", B: false, Sort: SBool}
)

func IntC(n int64) *T    { return &T{Op: "int", I: big.NewInt(n), Sort: SInt} }
func IntB(n *big.Int) *T { return &T{Op: "int", I: new(big.Int).Set(n), Sort: SInt} }
func BoolC(b bool) *T {
	if b {
		return TTrue
	}
	return TFalse
}

// symbol table of uninterpreted functions: name -> signature
type ufSig struct {
	args []Sort
	ret  Sort
}

var ufTable = map[string]ufSig{}

func smtName(s string) string {
	// All emitted symbols are quoted-safe: replace odd characters.
	var b strings.Builder
	for _, c := range s {
		switch {
		case c >= 'a' && c <= 'z', c >= 'A' && c <= 'Z', c >= '0' && c <= '9', c == '_', c == '!', c == '.', c == '$':
			b.WriteRune(c)
		default:
			fmt.Fprintf(&b, "_%x_", c)
		}
	}
	return b.String()
}

func Sym(name string, s Sort) *T { return &T{Op: "sym", Name: "v!" + smtName(name), Sort: s} }

var freshCtr int

func Fresh(prefix string, s Sort) *T {
	freshCtr++
	return Sym(fmt.Sprintf("%s!%d", prefix, freshCtr), s)
}

// UF applies an uninterpreted function (declared on first use).
func UF(name string, ret Sort, args ...*T) *T {
	n := "f!" + smtName(name)
	if _, ok := ufTable[n]; !ok {
		sig := ufSig{ret: ret}
		for _, a := range args {
			sig.args = append(sig.args, a.Sort)
		}
		ufTable[n] = sig
	} else {
		sig := ufTable[n]
		if len(sig.args) != len(args) {
			panic(fmt.Sprintf("UF %s arity mismatch", name))
		}
		for i, a := range args {
			if sig.args[i] != a.Sort {
				panic(fmt.Sprintf("UF %s arg %d sort mismatch: %s vs %s (%s)", name, i, sig.args[i], a.Sort, a))
			}
		}
		if sig.ret != ret {
			panic(fmt.Sprintf("UF %s return sort mismatch %s vs %s", name, sig.ret, ret))
		}
	}
	return &T{Op: "app", Name: n, Args: args, Sort: ret}
}

func app(name string, s Sort, args ...*T) *T { return &T{Op: "app", Name: name, Args: args, Sort: s} }

func (t *T) IsInt() bool  { return t.Op == "int" }
func (t *T) IsBool() bool { return t.Op == "bool" }
func (t *T) IsTrue() bool { return t.Op == "bool" && t.B }
func (t *T) IsFalse() bool {
	return t.Op == "bool" && !t.B
}

func (t *T) String() string {
	if t.str != "" {
		return t.str
	}
	var s string
	switch t.Op {
	case "int":
		if t.I.Sign() < 0 {
			s = "(- " + new(big.Int).Neg(t.I).String() + ")"
		} else {
			s = t.I.String()
		}
	case "bool":
		if t.B {
			s = "true"
		} else {
			s = "false"
		}
	case "sym":
		s = t.Name
	case "app":
		var b strings.Builder
		b.WriteString("(")
		b.WriteString(t.Name)
		for _, a := range t.Args {
			b.WriteString(" ")
			b.WriteString(a.String())
		}
		b.WriteString(")")
		s = b.String()
	}
	t.str = s
	return s
}

func same(a, b *T) bool { return a == b || a.String() == b.String() }

func Not(a *T) *T {
	if a.IsBool() {
		return BoolC(!a.B)
	}
	if a.Op == "app" && a.Name == "not" {
		return a.Args[0]
	}
	return app("not", SBool, a)
}

func And(xs ...*T) *T {
	var out []*T
	for _, x := range xs {
		if x.IsTrue() {
			continue
		}
		if x.IsFalse() {
			return TFalse
		}
		if x.Op == "app" && x.Name == "and" {
			out = append(out, x.Args...)
			continue
		}
		out = append(out, x)
	}
	if len(out) == 0 {
		return TTrue
	}
	if len(out) == 1 {
		return out[0]
	}
	return app("and", SBool, out...)
}

func Or(xs ...*T) *T {
	var out []*T
	for _, x := range xs {
		if x.IsFalse() {
			continue
		}
		if x.IsTrue() {
			return TTrue
		}
		if x.Op == "app" && x.Name == "or" {
			out = append(out, x.Args...)
			continue
		}
		out = append(out, x)
	}
	if len(out) == 0 {
		return TFalse
	}
	if len(out) == 1 {
		return out[0]
	}
	return app("or", SBool, out...)
}

func Implies(a, b *T) *T {
	if a.IsTrue() {
		return b
	}
	if a.IsFalse() || b.IsTrue() {
		return TTrue
	}
	if b.IsFalse() {
		return Not(a)
	}
	return app("=>", SBool, a, b)
}

func Ite(c, a, b *T) *T {
	if c.IsTrue() {
		return a
	}
	if c.IsFalse() {
		return b
	}
	if same(a, b) {
		return a
	}
	if a.Sort == SBool {
		if a.IsTrue() && b.IsFalse() {
			return c
		}
		if a.IsFalse() && b.IsTrue() {
			return Not(c)
		}
	}
	return app("ite", a.Sort, c, a, b)
}

func Eq(a, b *T) *T {
	if a.Sort != b.Sort {
		panic(fmt.Sprintf("Eq sort mismatch: %s:%s vs %s:%s", a, a.Sort, b, b.Sort))
	}
	if a.IsInt() && b.IsInt() {
		return BoolC(a.I.Cmp(b.I) == 0)
	}
	if a.IsBool() && b.IsBool() {
		return BoolC(a.B == b.B)
	}
	if same(a, b) {
		return TTrue
	}
	if a.Sort == SBool {
		if a.IsTrue() {
			return b
		}
		if b.IsTrue() {
			return a
		}
		if a.IsFalse() {
			return Not(b)
		}
		if b.IsFalse() {
			return Not(a)
		}
	}
	return app("=", SBool, a, b)
}

func Ne(a, b *T) *T { return Not(Eq(a, b)) }

func cmp(op string, a, b *T) *T {
	if a.IsInt() && b.IsInt() {
		c := a.I.Cmp(b.I)
		switch op {
		case "<":
			return BoolC(c < 0)
		case "<=":
			return BoolC(c <= 0)
		case ">":
			return BoolC(c > 0)
		case ">=":
			return BoolC(c >= 0)
		}
	}
	if same(a, b) {
		return BoolC(op == "<=" || op == ">=")
	}
	return app(op, SBool, a, b)
}

func Lt(a, b *T) *T { return cmp("<", a, b) }
func Le(a, b *T) *T { return cmp("<=", a, b) }
func Gt(a, b *T) *T { return cmp(">", a, b) }
func Ge(a, b *T) *T { return cmp(">=", a, b) }

func Add(a, b *T) *T {
	if a.IsInt() && b.IsInt() {
		return IntB(new(big.Int).Add(a.I, b.I))
	}
	if a.IsInt() && a.I.Sign() == 0 {
		return b
	}
	if b.IsInt() && b.I.Sign() == 0 {
		return a
	}
	// (x + c1) + c2
	if b.IsInt() && a.Op == "app" && a.Name == "+" && len(a.Args) == 2 && a.Args[1].IsInt() {
		return Add(a.Args[0], IntB(new(big.Int).Add(a.Args[1].I, b.I)))
	}
	if b.IsInt() && a.Op == "app" && a.Name == "-" && len(a.Args) == 2 && a.Args[1].IsInt() {
		return Add(a.Args[0], IntB(new(big.Int).Sub(b.I, a.Args[1].I)))
	}
	if b.IsInt() && b.I.Sign() < 0 {
		return app("-", SInt, a, IntB(new(big.Int).Neg(b.I)))
	}
	return app("+", SInt, a, b)
}

func Sub(a, b *T) *T {
	if a.IsInt() && b.IsInt() {
		return IntB(new(big.Int).Sub(a.I, b.I))
	}
	if b.IsInt() {
		return Add(a, IntB(new(big.Int).Neg(b.I)))
	}
	if same(a, b) {
		return IntC(0)
	}
	return app("-", SInt, a, b)
}

func Mul(a, b *T) *T {
	if a.IsInt() && b.IsInt() {
		return IntB(new(big.Int).Mul(a.I, b.I))
	}
	return app("*", SInt, a, b)
}

func Neg(a *T) *T {
	if a.IsInt() {
		return IntB(new(big.Int).Neg(a.I))
	}
	return app("-", SInt, a)
}

// Go truncated division and remainder, defined through SMT euclidean div/mod.
func TDiv(a, b *T) *T {
	if a.IsInt() && b.IsInt() && b.I.Sign() != 0 {
		return IntB(new(big.Int).Quo(a.I, b.I))
	}
	return UFdef("tdiv", SInt, a, b)
}

func TRem(a, b *T) *T {
	if a.IsInt() && b.IsInt() && b.I.Sign() != 0 {
		return IntB(new(big.Int).Rem(a.I, b.I))
	}
	return UFdef("trem", SInt, a, b)
}

// UFdef applies a function that is defined in the prelude (not declared as UF).
func UFdef(name string, ret Sort, args ...*T) *T {
	return &T{Op: "app", Name: "d!" + name, Args: args, Sort: ret}
}

func Mod(a *T, m int64) *T {
	if a.IsInt() {
		r := new(big.Int).Mod(a.I, big.NewInt(m))
		return IntB(r)
	}
	return app("mod", SInt, a, IntC(m))
}

func Select(arr, idx *T) *T {
	_, v := arr.Sort.ArrParts()
	// read-over-write simplification
	cur := arr
	for cur.Op == "app" && cur.Name == "store" {
		if same(cur.Args[1], idx) {
			return cur.Args[2]
		}
		if cur.Args[1].IsInt() && idx.IsInt() {
			cur = cur.Args[0]
			continue
		}
		break
	}
	return app("select", v, cur, idx)
}

func Store(arr, idx, val *T) *T {
	k, v := arr.Sort.ArrParts()
	if idx.Sort != k || val.Sort != v {
		panic(fmt.Sprintf("Store sort mismatch: arr %s idx %s:%s val %s:%s", arr.Sort, idx, idx.Sort, val, val.Sort))
	}
	return app("store", arr.Sort, arr, idx, val)
}

func Forall(vars []*T, body *T) *T {
	if body.IsTrue() {
		return TTrue
	}
	var b strings.Builder
	b.WriteString("(forall (")
	for _, v := range vars {
		fmt.Fprintf(&b, "(%s %s)", v.Name, v.Sort)
	}
	b.WriteString(") ")
	t := &T{Op: "app", Name: "forall", Args: append(append([]*T{}, vars...), body), Sort: SBool}
	t.str = b.String() + body.String() + ")"
	return t
}

func Exists(vars []*T, body *T) *T {
	var b strings.Builder
	b.WriteString("(exists (")
	for _, v := range vars {
		fmt.Fprintf(&b, "(%s %s)", v.Name, v.Sort)
	}
	b.WriteString(") ")
	t := &T{Op: "app", Name: "exists", Args: append(append([]*T{}, vars...), body), Sort: SBool}
	t.str = b.String() + body.String() + ")"
	return t
}

// Subst replaces symbols by terms (used for spec macros with bound variables).
func Subst(t *T, m map[string]*T) *T {
	switch t.Op {
	case "sym":
		if r, ok := m[t.Name]; ok {
			return r
		}
		return t
	case "app":
		if t.Name == "forall" || t.Name == "exists" {
			n := len(t.Args) - 1
			body := Subst(t.Args[n], m)
			if t.Name == "forall" {
				return Forall(t.Args[:n], body)
			}
			return Exists(t.Args[:n], body)
		}
		changed := false
		args := make([]*T, len(t.Args))
		for i, a := range t.Args {
			args[i] = Subst(a, m)
			if args[i] != a {
				changed = true
			}
		}
		if !changed {
			return t
		}
		return rebuild(t, args)
	}
	return t
}

func rebuild(t *T, args []*T) *T {
	switch t.Name {
	case "not":
		return Not(args[0])
	case "and":
		return And(args...)
	case "or":
		return Or(args...)
	case "=>":
		return Implies(args[0], args[1])
	case "ite":
		return Ite(args[0], args[1], args[2])
	case "=":
		return Eq(args[0], args[1])
	case "<", "<=", ">", ">=":
		return cmp(t.Name, args[0], args[1])
	case "+":
		if len(args) == 2 {
			return Add(args[0], args[1])
		}
	case "-":
		if len(args) == 2 {
			return Sub(args[0], args[1])
		}
	case "select":
		return Select(args[0], args[1])
	}
	return &T{Op: "app", Name: t.Name, Args: args, Sort: t.Sort}
}

// collect walks a term and records symbols, UFs and the string-theory atoms in it.
type collector struct {
	syms  map[string]Sort
	ufs   map[string]bool
	slens map[string]*T // argument terms of slen
	sats  map[string]*T // whole (sat s i) terms
	eqlits map[string]*T
	seen  map[*T]bool
	bound map[string]bool
}

func newCollector() *collector {
	return &collector{syms: map[string]Sort{}, ufs: map[string]bool{}, slens: map[string]*T{}, sats: map[string]*T{}, eqlits: map[string]*T{}, seen: map[*T]bool{}, bound: map[string]bool{}}
}

func (c *collector) walk(t *T) {
	if c.seen[t] {
		return
	}
	c.seen[t] = true
	switch t.Op {
	case "sym":
		if !c.bound[t.Name] {
			c.syms[t.Name] = t.Sort
		}
	case "app":
		if t.Name == "forall" || t.Name == "exists" {
			n := len(t.Args) - 1
			for _, v := range t.Args[:n] {
				c.bound[v.Name] = true
			}
			c.walk(t.Args[n])
			return
		}
		if strings.HasPrefix(t.Name, "f!") {
			c.ufs[t.Name] = true
		}
		if t.Name == "slen" && !hasBound(t.Args[0], c.bound) {
			c.slens[t.Args[0].String()] = t.Args[0]
		}
		if t.Name == "f!eqlit" && !hasBound(t, c.bound) {
			c.eqlits[t.String()] = t
		}
		if t.Name == "sat" && !hasBound(t, c.bound) {
			c.sats[t.String()] = t
		}
		if t.Sort == SStr && !hasBound(t, c.bound) {
			c.slens[t.String()] = t
		}
		for _, a := range t.Args {
			c.walk(a)
		}
	}
	if t.Sort == SStr && t.Op == "sym" && !c.bound[t.Name] {
		c.slens[t.String()] = t
	}
}

func hasBound(t *T, bound map[string]bool) bool {
	if len(bound) == 0 {
		return false
	}
	switch t.Op {
	case "sym":
		return bound[t.Name]
	case "app":
		for _, a := range t.Args {
			if hasBound(a, bound) {
				return true
			}
		}
	}
	return false
}

func sortedKeys[V any](m map[string]V) []string {
	ks := make([]string, 0, len(m))
	for k := range m {
		ks = append(ks, k)
	}
	sort.Strings(ks)
	return ks
}

func Slen(s *T) *T { return app("slen", SInt, s) }
func Sat(s, i *T) *T {
	return app("sat", SInt, s, i)
}

func (c *collector) hasSkolem() bool {
	for k := range c.syms {
		if strings.Contains(k, "sk!") {
			return true
		}
	}
	return false
}
