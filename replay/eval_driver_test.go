package textwire

// Replay / bounded driver for evaluator, object and parser obligations (injected at the
// repository root through `go test -overlay`; nothing is written into /repo). It runs the
// public API on an enumerated grid of small templates and data values and reports the first
// input on which the real code panics, hangs, or (for the determinism clause) gives two
// different results. Prints "TWV-CONFIRMED clause=... input=..." and fails on a violation.

import (
	"fmt"
	"os"
	"regexp"
	"runtime/debug"
	"strings"
	"testing"
	"time"
)

type twvCase struct {
	tpl  string
	data map[string]any
}

func twvRun(c twvCase) (out string, errText string, panicked string, hung bool) {
	type res struct{ out, err, pan string }
	ch := make(chan res, 1)
	go func() {
		defer func() {
			if r := recover(); r != nil {
				ch <- res{pan: fmt.Sprint(r) + "\n" + string(debug.Stack())}
			}
		}()
		o, err := EvaluateString(c.tpl, c.data)
		e := ""
		if err != nil {
			e = err.Error()
		}
		ch <- res{out: o, err: e}
	}()
	select {
	case r := <-ch:
		return r.out, r.err, r.pan, false
	case <-time.After(3 * time.Second):
		return "", "", "", true
	}
}

func twvOperands() []string {
	return []string{"0", "1", "-1", "2", "7", "9223372036854775807", "0.0", "0.5", "-1.5", "2.5", `""`, `"a"`, `"héllo"`, `"<b>"`, "true", "false", "nil",
		"[]", "[1, 2, 3]", `["a"]`, "{}", "{a: 1}", "x", "s", "f", "b", "arr", "obj", "ptr", "undefinedName"}
}

func twvData() map[string]any {
	type S struct {
		A int
		b int
		P *int
	}
	return map[string]any{"x": 3, "s": "str", "f": 1.5, "b": true, "arr": []any{1, "a", 2.5}, "obj": map[string]any{"k": 1, "": 2}, "ptr": (*int)(nil), "st": S{A: 1}}
}

func twvCases() []twvCase {
	var cs []twvCase
	d := twvData()
	ops := []string{"+", "-", "*", "/", "%", "==", "!=", "<", ">", "<=", ">="}
	vals := twvOperands()
	for _, a := range vals {
		for _, o := range ops {
			for _, b := range []string{"0", "2", "-1", "0.0", `"a"`, "true", "nil", "x", "[1]", "{}"} {
				cs = append(cs, twvCase{"{{ " + a + " " + o + " " + b + " }}", d})
			}
		}
		for _, p := range []string{"-", "!"} {
			cs = append(cs, twvCase{"{{ " + p + a + " }}", d})
		}
		for _, p := range []string{"++", "--"} {
			cs = append(cs, twvCase{"{{ " + a + p + " }}", d})
		}
		cs = append(cs, twvCase{"{{ " + a + " ? 1 : 2 }}", d})
		cs = append(cs, twvCase{"@if(" + a + ")T@elseif(" + a + ")E@else F@end", d})
		cs = append(cs, twvCase{"@each(v in " + a + "){{ v }}{{ loop.index }}@else none@end", d})
		for _, idx := range []string{"0", "-1", "3", "99", `""`, `"a"`, `"A"`, "nil", "x"} {
			cs = append(cs, twvCase{"{{ " + a + "[" + idx + "] }}", d})
		}
		cs = append(cs, twvCase{"{{ " + a + ".a }}", d}, twvCase{"{{ " + a + ".A }}", d}, twvCase{"{{ y = " + a + " }}{{ y }}", d}, twvCase{"@dump(" + a + ")", d})
		cs = append(cs, twvCase{"{{ x = 1 }}@if(true){{ x = " + a + " }}@end{{ x }}", d})
	}
	fns := []string{"len", "split", "raw", "trim", "trimRight", "trimLeft", "upper", "lower", "capitalize", "reverse", "contains", "truncate", "decimal", "at", "first", "last", "repeat",
		"join", "rand", "slice", "shuffle", "append", "prepend", "int", "str", "abs", "ceil", "floor", "round", "float", "binary", "then", "nope"}
	args := []string{"", "0", "1", "-1", "-5", "2", "99", "9223372036854775807", "4611686018427387904", `".", 9223372036854775807`, `""`, `"."`, `"a"`, "nil", "true", "1, 2", "2, 1", "-1, 5", `".", -1`, `".", 3`, "1, 2, 3", "[1]", "{}"}
	for _, r := range []string{`"abc"`, `"héllo"`, `""`, "5", "-5", "0", "2.5", "-2.5", "true", "false", "[1, 2, 3]", "[]", `["a", {b: 1}, [1]]`, "nil", "{a: 1}"} {
		for _, f := range fns {
			for _, a := range args {
				cs = append(cs, twvCase{"{{ " + r + "." + f + "(" + a + ") }}", d})
			}
		}
	}
	for _, f := range []string{"@for(;;)x@break@end", "@for(i = 0; i < 3;){{ i }}@break@end", "@for(i = 0; i < 3; i++){{ i }}@end", "@for(1; false;)x@end", "@for(i = 0; i < 3; i++)@if(i == 1)@continue@end{{ i }}@breakIf(i == 2)@end",
		"@each(a in [1,2])@each(b in [3,4]){{ loop.index }}@break@end{{ loop.iter }}@end", "@each(a in [])x@else@break@end", "{{ {a: 1, b: 2, c: 3} }}", "@dump({a: [1, {b: 2}]})"} {
		cs = append(cs, twvCase{f, d})
	}
	// parser robustness: prefixes of valid templates and illegal characters
	for _, f := range []string{"@if(true)a", "@if(true)a@else", "@each(x in [1,2])a", "@for(i=0;i<2;i++)x", "@insert(\"a\")x", "@if(true){{ # }}@end", "{{ {a:1", "{{ {a: #} }}", "@component(\"a\")@slot(\"x\")b", "{{ \"abc", "{{-- x", "@use(\"~a\"", "@reserve(\"a\"",
		"@if(true)@end@dump(1)", "{{ [1, 2", "{{ x[1 }}", "{{ arr[0 }}", "{{ arr[0", "{{ 1 + }}", "{{ x.", "{{ x.a(", "@if(x", "@each(v in arr", "@for(i = 0; i <", "{{ (1 + ", "{{ a ? b", "{{ 1 +", "@breakIf(", "@slot", "}}x", "{{ 1 }}}}x", "a\x00b", "{{-- --}\\@end", "\\{{ x }}", "\\@if(x)", "{{ 99999999999999999999 }}", "{{ 1 ~ 2 }}"} {
		cs = append(cs, twvCase{f, d})
	}
	for _, dv := range []map[string]any{{"p": (*int)(nil)}, {"p": []any{make(chan int)}}, {"p": map[string]any{"x": func() {}}}, {"loop": 1}, {"p": struct{ a int }{1}}, {"p": uint64(18446744073709551615)}, {"p": int8(-5)}, {"p": uint8(200)}, {"p": float32(1.5)}, {"p": []int{1, 2}}, {"p": map[string]int{"a": 1}}} {
		cs = append(cs, twvCase{"{{ p }}", dv})
	}
	return cs
}

// twvFrame: the obligation's function as it appears in a Go stack trace
// ("evaluator.Evaluator.evalInfix/..." -> evaluator.(*Evaluator).evalInfix), "" when unknown
func twvFrame(ob string) *regexp.Regexp {
	fn := ob
	if i := strings.Index(fn, "/"); i >= 0 {
		fn = fn[:i]
	}
	if i := strings.Index(fn, "$"); i >= 0 {
		fn = fn[:i]
	}
	parts := strings.Split(fn, ".")
	switch len(parts) {
	case 2:
		return regexp.MustCompile(`[/.]` + regexp.QuoteMeta(parts[0]) + `\.` + regexp.QuoteMeta(parts[1]) + `\(`)
	case 3:
		return regexp.MustCompile(`[/.]` + regexp.QuoteMeta(parts[0]) + `\.\(?\*?` + regexp.QuoteMeta(parts[1]) + `\)?\.` + regexp.QuoteMeta(parts[2]) + `\(`)
	}
	return nil
}

func TestTwvEvalDriver(t *testing.T) {
	ob := os.Getenv("TWV_OBLIGATION")
	frame := twvFrame(ob)
	if strings.Contains(ob, "well-formed") || strings.Contains(ob, "store-invariant") || strings.Contains(ob, "len(p.errors)") || strings.Contains(ob, "scan:ast-written") {
		// the parser's well-formedness obligations are the evaluator's precondition: their
		// violation shows as a crash anywhere in the evaluator
		frame = nil
	}
	wantDet := ob == "" || strings.Contains(ob, "scan:") || strings.Contains(ob, "all")
	cs := twvCases()
	for _, c := range cs {
		out, errText, pan, hung := twvRun(c)
		if pan != "" {
			// a crash confirms this obligation only when it happens in the obligation's function
			if ob == "" || frame == nil || frame.MatchString(pan) {
				fmt.Printf("TWV-CONFIRMED clause=nopanic input=%q data=%v detail=%s\n", c.tpl, c.data, strings.SplitN(pan, "\n", 2)[0])
				t.FailNow()
			}
			continue
		}
		if hung {
			fmt.Printf("TWV-CONFIRMED clause=terminates input=%q detail=no result after 3s\n", c.tpl)
			t.FailNow()
		}
		if wantDet && !strings.Contains(c.tpl, "shuffle") && !strings.Contains(c.tpl, "rand") {
			for i := 0; i < 4; i++ {
				o2, e2, _, _ := twvRun(c)
				if o2 != out || e2 != errText {
					fmt.Printf("TWV-CONFIRMED clause=deterministic input=%q detail=%q/%q vs %q/%q\n", c.tpl, out, errText, o2, e2)
					t.FailNow()
				}
			}
		}
	}
	fmt.Printf("TWV-DRIVER cases=%d\n", len(cs))
}
