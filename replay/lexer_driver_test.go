package lexer

// Replay / bounded driver for the lexer contracts (injected in-package through
// `go test -overlay`; nothing is written into /repo). It evaluates the contract clauses
// of lexer/zz_contracts_verif.go as runtime assertions on the real lexer, for every byte
// string up to a bound over an adversarial alphabet (plus bytes taken from the solver's
// model, if any). Prints "TWV-CONFIRMED clause=... input=..." and fails on a violation.

import (
	"encoding/json"
	"fmt"
	"os"
	"strconv"
	"strings"
	"testing"
	"time"

	"github.com/textwire/textwire/v2/token"
)

func twvLineCol(s string, i int) (uint, uint) {
	var line, col uint
	for k := 0; k < i; k++ {
		c := byte(0)
		if k < len(s) {
			c = s[k]
		}
		if c == '\n' {
			line++
			col = 0
		} else {
			col++
		}
	}
	return line, col
}

func twvByteAt(s string, i int) byte {
	if i >= 0 && i < len(s) {
		return s[i]
	}
	return 0
}

func twvOffsetOf(s string, line, col uint, from int) int {
	for i := from; i <= len(s)+3; i++ {
		l, c := twvLineCol(s, i)
		if l == line && c == col {
			return i
		}
	}
	return -1
}

func twvInv(l *Lexer) string {
	s := l.input
	if l.pos < 0 || l.readPos != l.pos+1 {
		return "pos/readPos"
	}
	if l.char != twvByteAt(s, l.pos) {
		return "char"
	}
	ln, col := twvLineCol(s, l.pos)
	if l.line != ln || l.col != col {
		return fmt.Sprintf("line/col: have (%d,%d) want (%d,%d)", l.line, l.col, ln, col)
	}
	if l.shouldResetCol != (l.char == '\n') {
		return "shouldResetCol"
	}
	if l.pos > 0 {
		pl, pc := twvLineCol(s, l.pos-1)
		if l.prevLine != pl || l.prevCol != pc {
			return "prevLine/prevCol"
		}
	}
	return ""
}

func twvDirKeyAt(s string, p int) bool {
	for d := range token.GetDirectives() {
		if p+len(d) <= len(s) && s[p:p+len(d)] == d {
			return true
		}
	}
	return false
}

func twvIsSpace(c byte) bool { return c == ' ' || c == '\t' || c == '\n' || c == '\r' }

func twvFixed(t token.TokenType) bool {
	return (token.ADD <= t && t <= token.SEMI) || (token.TRUE <= t && t <= token.IN)
}

// twvCheck lexes one input and returns the first violated clause among want.
func twvCheck(in string, want map[string]bool) (clause string, detail string) {
	done := make(chan [2]string, 1)
	go func() {
		defer func() {
			if r := recover(); r != nil {
				if want["nopanic"] {
					done <- [2]string{"nopanic", fmt.Sprint(r)}
				} else {
					done <- [2]string{"", ""}
				}
			}
		}()
		l := New(in)
		if m := twvInv(l); m != "" && want["inv"] {
			done <- [2]string{"inv", "after New: " + m}
			return
		}
		for n := 0; ; n++ {
			if n > len(in)+4 {
				if want["terminates"] {
					done <- [2]string{"terminates", "more tokens than bytes"}
				} else {
					done <- [2]string{"", ""}
				}
				return
			}
			p0, html0, c0 := l.pos, l.isHTML, l.char
			tok := l.NextToken()
			if m := twvInv(l); m != "" && want["inv"] {
				done <- [2]string{"inv", fmt.Sprintf("after token %d (%v): %s", n, tok, m)}
				return
			}
			start := twvOffsetOf(in, tok.Pos.StartLine, tok.Pos.StartCol, p0)
			if want["span"] {
				if start < 0 || start > l.pos {
					done <- [2]string{"span", fmt.Sprintf("token %d %v: start (%d,%d) is no offset in [%d,%d]", n, tok, tok.Pos.StartLine, tok.Pos.StartCol, p0, l.pos)}
					return
				}
				end := l.pos - 1
				if tok.Type == token.EOF {
					end = l.pos
				}
				if end >= 0 {
					el, ec := twvLineCol(in, end)
					if tok.Pos.EndLine != el || tok.Pos.EndCol != ec {
						done <- [2]string{"span", fmt.Sprintf("token %d %v: end (%d,%d), last byte is at (%d,%d)", n, tok, tok.Pos.EndLine, tok.Pos.EndCol, el, ec)}
						return
					}
				}
			}
			if want["ordered"] && tok.Type != token.EOF && (l.pos <= p0 || start < p0 || start > l.pos-1) {
				done <- [2]string{"ordered", fmt.Sprintf("token %d %v: range [%d,%d] read position %d -> %d", n, tok, start, l.pos-1, p0, l.pos)}
				return
			}
			if want["text"] && start >= 0 && (twvFixed(tok.Type) || tok.Type == token.IDENT || tok.Type == token.INT || tok.Type == token.FLOAT) {
				if start > len(in) || l.pos > len(in) || in[start:l.pos] != tok.Literal {
					done <- [2]string{"text", fmt.Sprintf("token %d %v: literal %q, source bytes [%d,%d)", n, tok, tok.Literal, start, l.pos)}
					return
				}
			}
			if want["gap"] && start >= 0 && !html0 {
				comment := false
				for j := p0; j < start; j++ {
					if strings.HasPrefix(in[min(j, len(in)):], "{{--") {
						comment = true
					}
				}
				for j := p0; j < start && !comment; j++ {
					if !twvIsSpace(twvByteAt(in, j)) {
						done <- [2]string{"gap", fmt.Sprintf("token %d %v: byte %d between tokens is %q", n, tok, j, twvByteAt(in, j))}
						return
					}
				}
			}
			if want["textmode"] && html0 && c0 != 0 {
				braces := twvByteAt(in, p0) == '{' && twvByteAt(in, p0+1) == '{'
				dir := twvDirKeyAt(in, p0)
				if !braces && !(dir && twvByteAt(in, p0-1) != '\\') && tok.Type != token.HTML {
					done <- [2]string{"textmode", fmt.Sprintf("token %d %v produced in text mode at offset %d", n, tok, p0)}
					return
				}
			}
			if tok.Type == token.EOF {
				if want["eof-nul"] && l.pos < len(in) {
					done <- [2]string{"eof-nul", fmt.Sprintf("EOF at offset %d of %d", l.pos, len(in))}
					return
				}
				if want["eof-at-end"] && l.pos > len(in) {
					done <- [2]string{"eof-at-end", fmt.Sprintf("EOF at offset %d of %d", l.pos, len(in))}
					return
				}
				break
			}
		}
		if want["passthrough"] && !strings.Contains(in, "{{") && !strings.Contains(in, "@") && !strings.Contains(in, "\x00") {
			l := New(in)
			tok := l.NextToken()
			if in != "" && (tok.Type != token.HTML || tok.Literal != in) {
				done <- [2]string{"passthrough", fmt.Sprintf("first token %v", tok)}
				return
			}
		}
		done <- [2]string{"", ""}
	}()
	select {
	case r := <-done:
		return r[0], r[1]
	case <-time.After(5 * time.Second):
		if want["terminates"] {
			return "terminates", "no result after 5s"
		}
		return "", ""
	}
}

func twvClauses(ob string) map[string]bool {
	all := map[string]bool{"inv": true, "span": true, "ordered": true, "text": true, "gap": true, "textmode": true, "nopanic": true, "terminates": true, "passthrough": true, "eof-at-end": true}
	pick := func(ks ...string) map[string]bool {
		m := map[string]bool{}
		for _, k := range ks {
			m[k] = true
		}
		return m
	}
	switch {
	case ob == "" || ob == "all":
		return all
	case strings.Contains(ob, "eof-nul"):
		return pick("eof-nul")
	case strings.Contains(ob, "eof-at-end"):
		return pick("eof-at-end")
	case strings.Contains(ob, "/dec") || strings.Contains(ob, "unroll") || strings.Contains(ob, "rec-dec"):
		return pick("terminates")
	case strings.Contains(ob, "safety:") || strings.Contains(ob, "/pre:bytes") || strings.Contains(ob, "/pre:strings"):
		return pick("nopanic")
	case strings.Contains(ob, "ordered"):
		return pick("ordered", "terminates")
	case strings.Contains(ob, "gap"):
		return pick("gap")
	case strings.Contains(ob, "text-mode"):
		return pick("textmode")
	case strings.Contains(ob, "passthrough") || strings.Contains(ob, "stops-right") || strings.Contains(ob, "no-earlier"):
		return pick("passthrough", "textmode")
	case strings.Contains(ob, "textIs") || strings.Contains(ob, ":text"):
		return pick("text")
	case strings.Contains(ob, "TokSpan") || strings.Contains(ob, "Advance"):
		return pick("span", "inv", "ordered")
	}
	return all
}

func TestTwvLexerDriver(t *testing.T) {
	ob := os.Getenv("TWV_OBLIGATION")
	want := twvClauses(ob)
	bound := 4
	if b, err := strconv.Atoi(os.Getenv("TWV_BOUND")); err == nil {
		bound = b
	}
	alpha := []string{"{", "}", "@", "\\", "-", "\"", "'", "(", ")", "\n", "\r", "\t", " ", "a", "i", "f", "I", "0", ".", "#", "+", "=", "\x00", "é"}
	var model map[string]string
	json.Unmarshal([]byte(os.Getenv("TWV_MODEL")), &model)
	for _, v := range model {
		if n, err := strconv.Atoi(v); err == nil && n > 0 && n < 256 {
			alpha = append(alpha, string([]byte{byte(n)}))
		}
	}
	atoms := append([]string{}, alpha...)
	for d := range token.GetDirectives() {
		atoms = append(atoms, d)
	}
	atoms = append(atoms, "{{", "}}", "{{--", "--}}", "\\{{", "\\@if")
	count := 0
	var rec func(prefix string, depth int) bool
	rec = func(prefix string, depth int) bool {
		count++
		if c, d := twvCheck(prefix, want); c != "" {
			fmt.Printf("TWV-CONFIRMED clause=%s input=%q detail=%s\n", c, prefix, d)
			t.Fail()
			return true
		}
		if depth == 0 {
			return false
		}
		set := alpha
		if depth >= bound-1 {
			set = atoms
		}
		for _, a := range set {
			if rec(prefix+a, depth-1) {
				return true
			}
		}
		return false
	}
	rec("", bound)
	fmt.Printf("TWV-DRIVER inputs=%d bound=%d clauses=%v\n", count, bound, want)
}
